//! C08 adapters: ICMPv4, ICMPv6, IGMP, IGMPv3 group record, NDP prefix information

use super::refenc as rf;
use super::ty::*;
use etherparse::*;

fn patch_csum(mut b: Vec<u8>, c: u16) -> Vec<u8> {
    b[2] = (c >> 8) as u8;
    b[3] = c as u8;
    b
}

// ---- ICMPv4 ---------------------------------------------------------------------------------------------

#[derive(Clone, Copy, Debug)]
enum K4 {
    Unknown(u8, u8),
    EchoReply,
    Du(u8),
    DuFrag,
    Redirect(u8),
    EchoReq,
    Te(u8),
    PpPtr,
    PpMissing,
    PpBadLen,
    TsReq,
    TsRep,
}

fn k4_list() -> Vec<K4> {
    let mut v = vec![];
    // Unknown: types without a typed variant, and typed types with the codes next to the typed ones
    for t in [1u8, 2, 4, 6, 7, 9, 10, 15, 16, 0x5a, 254, 255] {
        for c in [0u8, 1, 255] {
            v.push(K4::Unknown(t, c));
        }
    }
    for (t, c) in [(0u8, 1u8), (0, 255), (3, 16), (3, 255), (5, 4), (5, 255), (8, 1), (8, 255), (11, 2), (11, 255), (12, 3), (12, 255), (13, 1), (13, 255), (14, 1), (14, 255)] {
        v.push(K4::Unknown(t, c));
    }
    v.push(K4::EchoReply);
    for c in 0..16u8 {
        if c != 4 {
            v.push(K4::Du(c));
        }
    }
    v.push(K4::DuFrag);
    for c in 0..4u8 {
        v.push(K4::Redirect(c));
    }
    v.push(K4::EchoReq);
    v.push(K4::Te(0));
    v.push(K4::Te(1));
    v.extend([K4::PpPtr, K4::PpMissing, K4::PpBadLen, K4::TsReq, K4::TsRep]);
    v
}

fn k4_alph(k: K4, th: bool) -> Vec<Vec<u64>> {
    match k {
        K4::Unknown(..) => vec![pats(th)],
        K4::EchoReply | K4::EchoReq => vec![ints(16, 0, th), ints(16, 1, th)],
        K4::Du(_) | K4::Te(_) | K4::PpMissing | K4::PpBadLen => vec![],
        K4::DuFrag => vec![ints(16, 0, th)],
        K4::Redirect(_) => vec![pats(th)],
        K4::PpPtr => vec![ints(8, 0, th)],
        K4::TsReq | K4::TsRep => vec![ints(16, 0, th), ints(16, 1, th), ints(32, 2, false), ints(32, 3, false), ints(32, 4, false)],
    }
}

/// value + reference encoding with a zero checksum
fn k4_mk(k: K4, v: &[u64]) -> (Icmpv4Type, Vec<u8>) {
    use icmpv4::*;
    match k {
        K4::Unknown(t, c) => {
            assert!(!rf::icmp4_typed(t, c));
            let b: [u8; 4] = arr(v[0], 0);
            (Icmpv4Type::Unknown { type_u8: t, code_u8: c, bytes5to8: b }, rf::icmp8(t, c, 0, b))
        }
        // RFC 792 echo / echo reply: Identifier(16) Sequence Number(16)
        K4::EchoReply => (Icmpv4Type::EchoReply(IcmpEchoHeader { id: v[0] as u16, seq: v[1] as u16 }), rf::icmp8(0, 0, 0, rf::be16x2(v[0] as u16, v[1] as u16))),
        K4::EchoReq => (Icmpv4Type::EchoRequest(IcmpEchoHeader { id: v[0] as u16, seq: v[1] as u16 }), rf::icmp8(8, 0, 0, rf::be16x2(v[0] as u16, v[1] as u16))),
        K4::Du(c) => {
            use DestUnreachableHeader::*;
            // code numbers: RFC 792 (0-5), RFC 1122 (6-12), RFC 1812 (13-15)
            let h = [Network, Host, Protocol, Port, Port, SourceRouteFailed, NetworkUnknown, HostUnknown, Isolated, NetworkProhibited, HostProhibited, TosNetwork, TosHost, FilterProhibited, HostPrecedenceViolation, PrecedenceCutoff][c as usize].clone();
            (Icmpv4Type::DestinationUnreachable(h), rf::icmp8(3, c, 0, [0; 4]))
        }
        // RFC 1191 §4: unused(16)=0 Next-Hop MTU(16)
        K4::DuFrag => (Icmpv4Type::DestinationUnreachable(DestUnreachableHeader::FragmentationNeeded { next_hop_mtu: v[0] as u16 }), rf::icmp8(3, 4, 0, rf::be16x2(0, v[0] as u16))),
        K4::Redirect(c) => {
            use RedirectCode::*;
            let code = [RedirectForNetwork, RedirectForHost, RedirectForTypeOfServiceAndNetwork, RedirectForTypeOfServiceAndHost][c as usize];
            let gw: [u8; 4] = arr(v[0], 1);
            (Icmpv4Type::Redirect(RedirectHeader { code, gateway_internet_address: gw }), rf::icmp8(5, c, 0, gw))
        }
        K4::Te(c) => (Icmpv4Type::TimeExceeded([TimeExceededCode::TtlExceededInTransit, TimeExceededCode::FragmentReassemblyTimeExceeded][c as usize]), rf::icmp8(11, c, 0, [0; 4])),
        // RFC 792 parameter problem: Pointer(8) unused(24)=0
        K4::PpPtr => (Icmpv4Type::ParameterProblem(ParameterProblemHeader::PointerIndicatesError(v[0] as u8)), rf::icmp8(12, 0, 0, [v[0] as u8, 0, 0, 0])),
        K4::PpMissing => (Icmpv4Type::ParameterProblem(ParameterProblemHeader::MissingRequiredOption), rf::icmp8(12, 1, 0, [0; 4])),
        K4::PpBadLen => (Icmpv4Type::ParameterProblem(ParameterProblemHeader::BadLength), rf::icmp8(12, 2, 0, [0; 4])),
        K4::TsReq | K4::TsRep => {
            let m = TimestampMessage { id: v[0] as u16, seq: v[1] as u16, originate_timestamp: v[2] as u32, receive_timestamp: v[3] as u32, transmit_timestamp: v[4] as u32 };
            let t = if matches!(k, K4::TsReq) { 13 } else { 14 };
            let r = rf::icmp4_timestamp(t, 0, m.id, m.seq, m.originate_timestamp, m.receive_timestamp, m.transmit_timestamp);
            (if t == 13 { Icmpv4Type::TimestampRequest(m) } else { Icmpv4Type::TimestampReply(m) }, r)
        }
    }
}

fn k4_bases() -> Vec<(usize, Vec<u64>)> {
    let l = k4_list();
    let pos = |f: &dyn Fn(&K4) -> bool| l.iter().position(|k| f(k)).unwrap();
    vec![
        (pos(&|k| matches!(k, K4::EchoReq)), vec![0x5a5b, 0x6b6c]),
        (pos(&|k| matches!(k, K4::Du(3))), vec![]),
        (pos(&|k| matches!(k, K4::DuFrag)), vec![0x5a5b]),
        (pos(&|k| matches!(k, K4::Redirect(1))), vec![2]),
        (pos(&|k| matches!(k, K4::Te(1))), vec![]),
        (pos(&|k| matches!(k, K4::PpPtr)), vec![0x5a]),
        (pos(&|k| matches!(k, K4::PpBadLen)), vec![]),
        (pos(&|k| matches!(k, K4::TsReq)), vec![0x5a5b, 0x6b6c, 0x5a5b5c5d, 0x6b6c6d6e, 0x7c7d7e7f]),
        (pos(&|k| matches!(k, K4::Unknown(4, 0))), vec![2]),
    ]
}

pub struct I4H;
impl Ty for I4H {
    type V = Icmpv4Header;
    const NAME: &'static str = "Icmpv4Header";
    fn variants(_: bool) -> usize {
        k4_list().len()
    }
    fn alphabets(th: bool, variant: usize) -> Vec<Vec<u64>> {
        let mut a = k4_alph(k4_list()[variant], th);
        a.push(ints(16, 7, th));
        a
    }
    fn build(_: bool, variant: usize, v: &[u64]) -> Option<(Self::V, Vec<u8>)> {
        let (t, r) = k4_mk(k4_list()[variant], v);
        let c = *v.last().unwrap() as u16;
        Some((Icmpv4Header { icmp_type: t, checksum: c }, patch_csum(r, c)))
    }
    fn header_len(v: &Self::V) -> usize {
        v.header_len()
    }
    fn ser(v: &Self::V) -> Vec<(&'static str, Vec<u8>)> {
        vec![("to_bytes", v.to_bytes().to_vec()), ("write", wr(|w| v.write(w).unwrap())), ("TransportHeader::Icmpv4.write", wr(|w| TransportHeader::Icmpv4(v.clone()).write(w).unwrap()))]
    }
    fn ser_special(v: &Self::V, r: &[u8]) -> Vec<(&'static str, Vec<u8>, Vec<u8>)> {
        // the wrapper announces the same length as the header it wraps
        vec![("TransportHeader::Icmpv4.header_len", (TransportHeader::Icmpv4(v.clone()).header_len() as u64).to_be_bytes().to_vec(), (r.len() as u64).to_be_bytes().to_vec())]
    }
    fn dec0(b: &[u8]) -> Dec<Self::V> {
        sl(b, Icmpv4Header::from_slice(b))
    }
    fn dec_more(b: &[u8]) -> Vec<(&'static str, Dec<Self::V>)> {
        vec![("read", cur(b, |c| Icmpv4Header::read(c))), ("Icmpv4Slice::header", Icmpv4Slice::from_slice(b).map(|s| (s.header(), s.header_len())).map_err(dbg))]
    }
    fn mask(b: &[u8], m: &mut [u8]) {
        rf::mask_icmp4(b, m)
    }
    fn extra_bases(_: bool) -> Vec<(usize, Vec<u64>)> {
        k4_bases().into_iter().map(|(k, mut v)| { v.push(0x1234); (k, v) }).collect()
    }
}

const PAYLOAD: [u8; 5] = [0xab, 0xcd, 0xef, 0x01, 0x80];

pub struct I4T;
impl Ty for I4T {
    type V = Icmpv4Type;
    const NAME: &'static str = "Icmpv4Type";
    const DEC0: &'static str = "Icmpv4Slice::icmp_type";
    fn variants(_: bool) -> usize {
        k4_list().len()
    }
    fn alphabets(th: bool, variant: usize) -> Vec<Vec<u64>> {
        k4_alph(k4_list()[variant], th)
    }
    fn build(_: bool, variant: usize, v: &[u64]) -> Option<(Self::V, Vec<u8>)> {
        Some(k4_mk(k4_list()[variant], v))
    }
    fn header_len(v: &Self::V) -> usize {
        v.header_len()
    }
    fn ser(v: &Self::V) -> Vec<(&'static str, Vec<u8>)> {
        vec![("Icmpv4Header::new(type).to_bytes", Icmpv4Header::new(v.clone()).to_bytes().to_vec())]
    }
    fn ser_special(v: &Self::V, r: &[u8]) -> Vec<(&'static str, Vec<u8>, Vec<u8>)> {
        // RFC 792: checksum over the ICMP message starting with the type, checksum field zero
        let c0 = rf::rfc1071(r);
        let c1 = rf::rfc1071(&[r, &PAYLOAD[..]].concat());
        let mut h = Icmpv4Header::new(v.clone());
        h.update_checksum(&PAYLOAD);
        vec![
            ("Icmpv4Header::with_checksum(type, [])", Icmpv4Header::with_checksum(v.clone(), &[]).to_bytes().to_vec(), patch_csum(r.to_vec(), c0)),
            ("Icmpv4Header::update_checksum(payload)", h.to_bytes().to_vec(), patch_csum(r.to_vec(), c1)),
            ("calc_checksum(payload)", v.calc_checksum(&PAYLOAD).to_be_bytes().to_vec(), c1.to_be_bytes().to_vec()),
        ]
    }
    fn dec0(b: &[u8]) -> Dec<Self::V> {
        Icmpv4Slice::from_slice(b).map(|s| (s.icmp_type(), s.header_len())).map_err(dbg)
    }
    fn dec_more(b: &[u8]) -> Vec<(&'static str, Dec<Self::V>)> {
        vec![("Icmpv4Header::from_slice(..).icmp_type", sl(b, Icmpv4Header::from_slice(b)).map(|(h, n)| (h.icmp_type, n)))]
    }
    fn mask(b: &[u8], m: &mut [u8]) {
        rf::mask_icmp4(b, m);
        // the checksum is not part of the type
        if m.len() >= 4 {
            m[2] = 0xff;
            m[3] = 0xff;
        }
    }
    fn extra_bases(_: bool) -> Vec<(usize, Vec<u64>)> {
        k4_bases()
    }
}

// ---- ICMPv6 ---------------------------------------------------------------------------------------------

#[derive(Clone, Copy, Debug)]
enum K6 {
    Unknown(u8, u8),
    Du(u8),
    TooBig,
    Te(u8),
    Pp(u8),
    EchoReq,
    EchoRep,
    Rs,
    Ra,
    Ns,
    Na,
    Redirect,
}

fn k6_list() -> Vec<K6> {
    let mut v = vec![];
    for t in [0u8, 5, 100, 127, 130, 131, 132, 138, 141, 160, 0x5a, 200, 255] {
        for c in [0u8, 1, 255] {
            v.push(K6::Unknown(t, c));
        }
    }
    for (t, c) in [(1u8, 7u8), (1, 255), (2, 1), (2, 255), (3, 2), (3, 255), (4, 11), (4, 255), (128, 1), (128, 255), (129, 1), (133, 1), (134, 1), (134, 255), (135, 1), (136, 1), (136, 255), (137, 1), (137, 255)] {
        v.push(K6::Unknown(t, c));
    }
    for c in 0..7u8 {
        v.push(K6::Du(c));
    }
    v.push(K6::TooBig);
    v.push(K6::Te(0));
    v.push(K6::Te(1));
    for c in 0..11u8 {
        v.push(K6::Pp(c));
    }
    v.extend([K6::EchoReq, K6::EchoRep, K6::Rs, K6::Ra, K6::Ns, K6::Na, K6::Redirect]);
    v
}

fn k6_alph(k: K6, th: bool) -> Vec<Vec<u64>> {
    match k {
        K6::Unknown(..) => vec![pats(th)],
        K6::Du(_) | K6::Te(_) | K6::Rs | K6::Ns | K6::Redirect => vec![],
        K6::TooBig | K6::Pp(_) => vec![ints(32, 0, true)],
        K6::EchoReq | K6::EchoRep => vec![ints(16, 0, th), ints(16, 1, th)],
        K6::Ra => vec![ints(8, 0, th), bools(), bools(), ints(16, 1, th)],
        K6::Na => vec![bools(), bools(), bools()],
    }
}

fn k6_mk(k: K6, v: &[u64]) -> (Icmpv6Type, Vec<u8>) {
    use icmpv6::*;
    match k {
        K6::Unknown(t, c) => {
            assert!(!rf::icmp6_typed(t, c));
            let b: [u8; 4] = arr(v[0], 0);
            (Icmpv6Type::Unknown { type_u8: t, code_u8: c, bytes5to8: b }, rf::icmp8(t, c, 0, b))
        }
        K6::Du(c) => {
            use DestUnreachableCode::*;
            // RFC 4443 §3.1 codes 0-6
            let code = [NoRoute, Prohibited, BeyondScope, Address, Port, SourceAddressFailedPolicy, RejectRoute][c as usize];
            (Icmpv6Type::DestinationUnreachable(code), rf::icmp8(1, c, 0, [0; 4]))
        }
        // RFC 4443 §3.2: MTU(32)
        K6::TooBig => (Icmpv6Type::PacketTooBig { mtu: v[0] as u32 }, rf::icmp8(2, 0, 0, rf::be32(v[0] as u32))),
        K6::Te(c) => (Icmpv6Type::TimeExceeded([TimeExceededCode::HopLimitExceeded, TimeExceededCode::FragmentReassemblyTimeExceeded][c as usize]), rf::icmp8(3, c, 0, [0; 4])),
        K6::Pp(c) => {
            use ParameterProblemCode::*;
            // RFC 4443 §3.4 Pointer(32); codes: IANA "ICMPv6 Parameter Problem" 0-10
            let code = [
                ErroneousHeaderField,
                UnrecognizedNextHeader,
                UnrecognizedIpv6Option,
                Ipv6FirstFragmentIncompleteHeaderChain,
                SrUpperLayerHeaderError,
                UnrecognizedNextHeaderByIntermediateNode,
                ExtensionHeaderTooBig,
                ExtensionHeaderChainTooLong,
                TooManyExtensionHeaders,
                TooManyOptionsInExtensionHeader,
                OptionTooBig,
            ][c as usize];
            (Icmpv6Type::ParameterProblem(ParameterProblemHeader { code, pointer: v[0] as u32 }), rf::icmp8(4, c, 0, rf::be32(v[0] as u32)))
        }
        K6::EchoReq => (Icmpv6Type::EchoRequest(IcmpEchoHeader { id: v[0] as u16, seq: v[1] as u16 }), rf::icmp8(128, 0, 0, rf::be16x2(v[0] as u16, v[1] as u16))),
        K6::EchoRep => (Icmpv6Type::EchoReply(IcmpEchoHeader { id: v[0] as u16, seq: v[1] as u16 }), rf::icmp8(129, 0, 0, rf::be16x2(v[0] as u16, v[1] as u16))),
        K6::Rs => (Icmpv6Type::RouterSolicitation, rf::icmp8(133, 0, 0, [0; 4])),
        // RFC 4861 §4.2: Cur Hop Limit(8) M(1) O(1) Reserved(6)=0 Router Lifetime(16)
        K6::Ra => {
            let h = RouterAdvertisementHeader { cur_hop_limit: v[0] as u8, managed_address_config: v[1] != 0, other_config: v[2] != 0, router_lifetime: v[3] as u16 };
            let mut w = rf::BitW::new();
            w.put(8, v[0]).flag(v[1] != 0).flag(v[2] != 0).put(6, 0).put(16, v[3]);
            let b = w.done();
            (Icmpv6Type::RouterAdvertisement(h), rf::icmp8(134, 0, 0, [b[0], b[1], b[2], b[3]]))
        }
        K6::Ns => (Icmpv6Type::NeighborSolicitation, rf::icmp8(135, 0, 0, [0; 4])),
        // RFC 4861 §4.4: R(1) S(1) O(1) Reserved(29)=0
        K6::Na => {
            let h = NeighborAdvertisementHeader { router: v[0] != 0, solicited: v[1] != 0, r#override: v[2] != 0 };
            let mut w = rf::BitW::new();
            w.flag(v[0] != 0).flag(v[1] != 0).flag(v[2] != 0).put(29, 0);
            let b = w.done();
            (Icmpv6Type::NeighborAdvertisement(h), rf::icmp8(136, 0, 0, [b[0], b[1], b[2], b[3]]))
        }
        K6::Redirect => (Icmpv6Type::Redirect, rf::icmp8(137, 0, 0, [0; 4])),
    }
}

fn k6_bases() -> Vec<(usize, Vec<u64>)> {
    let l = k6_list();
    let pos = |f: &dyn Fn(&K6) -> bool| l.iter().position(|k| f(k)).unwrap();
    vec![
        (pos(&|k| matches!(k, K6::EchoReq)), vec![0x5a5b, 0x6b6c]),
        (pos(&|k| matches!(k, K6::Du(4))), vec![]),
        (pos(&|k| matches!(k, K6::TooBig)), vec![0x5a5b5c5d]),
        (pos(&|k| matches!(k, K6::Te(1))), vec![]),
        (pos(&|k| matches!(k, K6::Pp(2))), vec![0x5a5b5c5d]),
        (pos(&|k| matches!(k, K6::Rs)), vec![]),
        (pos(&|k| matches!(k, K6::Ra)), vec![0x5a, 1, 0, 0x6b6c]),
        (pos(&|k| matches!(k, K6::Ns)), vec![]),
        (pos(&|k| matches!(k, K6::Na)), vec![1, 0, 1]),
        (pos(&|k| matches!(k, K6::Redirect)), vec![]),
        (pos(&|k| matches!(k, K6::Unknown(130, 0))), vec![2]),
    ]
}

pub struct I6H;
impl Ty for I6H {
    type V = Icmpv6Header;
    const NAME: &'static str = "Icmpv6Header";
    fn variants(_: bool) -> usize {
        k6_list().len()
    }
    fn alphabets(th: bool, variant: usize) -> Vec<Vec<u64>> {
        let mut a = k6_alph(k6_list()[variant], th);
        a.push(ints(16, 7, th));
        a
    }
    fn build(_: bool, variant: usize, v: &[u64]) -> Option<(Self::V, Vec<u8>)> {
        let (t, r) = k6_mk(k6_list()[variant], v);
        let c = *v.last().unwrap() as u16;
        Some((Icmpv6Header { icmp_type: t, checksum: c }, patch_csum(r, c)))
    }
    fn header_len(v: &Self::V) -> usize {
        v.header_len()
    }
    fn ser(v: &Self::V) -> Vec<(&'static str, Vec<u8>)> {
        vec![("to_bytes", v.to_bytes().to_vec()), ("write", wr(|w| v.write(w).unwrap())), ("TransportHeader::Icmpv6.write", wr(|w| TransportHeader::Icmpv6(v.clone()).write(w).unwrap()))]
    }
    fn ser_special(v: &Self::V, r: &[u8]) -> Vec<(&'static str, Vec<u8>, Vec<u8>)> {
        vec![("TransportHeader::Icmpv6.header_len", (TransportHeader::Icmpv6(v.clone()).header_len() as u64).to_be_bytes().to_vec(), (r.len() as u64).to_be_bytes().to_vec())]
    }
    fn dec0(b: &[u8]) -> Dec<Self::V> {
        sl(b, Icmpv6Header::from_slice(b))
    }
    fn dec_more(b: &[u8]) -> Vec<(&'static str, Dec<Self::V>)> {
        vec![("read", cur(b, |c| Icmpv6Header::read(c))), ("Icmpv6Slice::header", Icmpv6Slice::from_slice(b).map(|s| (s.header(), s.header_len())).map_err(dbg))]
    }
    fn mask(b: &[u8], m: &mut [u8]) {
        rf::mask_icmp6(b, m)
    }
    fn extra_bases(_: bool) -> Vec<(usize, Vec<u64>)> {
        k6_bases().into_iter().map(|(k, mut v)| { v.push(0x1234); (k, v) }).collect()
    }
}

pub struct I6T;
impl Ty for I6T {
    type V = Icmpv6Type;
    const NAME: &'static str = "Icmpv6Type";
    const DEC0: &'static str = "Icmpv6Slice::icmp_type";
    fn variants(_: bool) -> usize {
        k6_list().len()
    }
    fn alphabets(th: bool, variant: usize) -> Vec<Vec<u64>> {
        k6_alph(k6_list()[variant], th)
    }
    fn build(_: bool, variant: usize, v: &[u64]) -> Option<(Self::V, Vec<u8>)> {
        Some(k6_mk(k6_list()[variant], v))
    }
    fn header_len(v: &Self::V) -> usize {
        v.header_len()
    }
    fn ser(v: &Self::V) -> Vec<(&'static str, Vec<u8>)> {
        let b = Icmpv6Header::new(*v).to_bytes().to_vec();
        let tc = [&[v.type_u8(), v.code_u8()][..], &b[2..]].concat();
        vec![("Icmpv6Header::new(type).to_bytes", b), ("type_u8(),code_u8()", tc)]
    }
    fn ser_special(v: &Self::V, r: &[u8]) -> Vec<(&'static str, Vec<u8>, Vec<u8>)> {
        let src: [u8; 16] = arr(2, 1);
        let dst: [u8; 16] = arr(2, 9);
        let c0 = rf::icmp6_checksum(&src, &dst, r);
        let c1 = rf::icmp6_checksum(&src, &dst, &[r, &PAYLOAD[..]].concat());
        let mut h = Icmpv6Header::new(*v);
        h.update_checksum(src, dst, &PAYLOAD).unwrap();
        vec![
            ("Icmpv6Header::with_checksum(type, [])", Icmpv6Header::with_checksum(*v, src, dst, &[]).unwrap().to_bytes().to_vec(), patch_csum(r.to_vec(), c0)),
            ("Icmpv6Header::update_checksum(payload)", h.to_bytes().to_vec(), patch_csum(r.to_vec(), c1)),
            ("to_header(payload)", v.to_header(src, dst, &PAYLOAD).unwrap().to_bytes().to_vec(), patch_csum(r.to_vec(), c1)),
        ]
    }
    fn dec0(b: &[u8]) -> Dec<Self::V> {
        Icmpv6Slice::from_slice(b).map(|s| (s.icmp_type(), s.header_len())).map_err(dbg)
    }
    fn dec_more(b: &[u8]) -> Vec<(&'static str, Dec<Self::V>)> {
        vec![("Icmpv6Header::from_slice(..).icmp_type", sl(b, Icmpv6Header::from_slice(b)).map(|(h, n)| (h.icmp_type, n)))]
    }
    fn mask(b: &[u8], m: &mut [u8]) {
        rf::mask_icmp6(b, m);
        if m.len() >= 4 {
            m[2] = 0xff;
            m[3] = 0xff;
        }
    }
    fn extra_bases(_: bool) -> Vec<(usize, Vec<u64>)> {
        k6_bases()
    }
}

// ---- IGMP -----------------------------------------------------------------------------------------------

#[derive(Clone, Copy, Debug)]
enum KG {
    Query,
    QueryV3,
    RepV1,
    RepV2,
    RepV3,
    Leave,
    Unknown(u8),
}

fn kg_list() -> Vec<KG> {
    let mut v = vec![KG::Query, KG::QueryV3, KG::RepV1, KG::RepV2, KG::RepV3, KG::Leave];
    // the numbers next to the typed ones and the extremes
    for t in [0u8, 1, 0x10, 0x13, 0x15, 0x18, 0x21, 0x23, 0x5a, 0xfe, 0xff] {
        v.push(KG::Unknown(t));
    }
    v
}

fn kg_alph(k: KG, th: bool) -> Vec<Vec<u64>> {
    let mut a = match k {
        KG::Query => vec![ints(8, 0, th), pats(th)],
        KG::QueryV3 => vec![ints(8, 0, th), pats(th), if th { range(256) } else { ints(8, 1, true) }, ints(8, 2, th), ints(16, 3, th)],
        KG::RepV1 | KG::RepV2 | KG::Leave => vec![pats(th)],
        KG::RepV3 => vec![pats(th), ints(16, 0, th)],
        KG::Unknown(_) => vec![ints(8, 0, th), pats(th)],
    };
    a.push(ints(16, 7, th));
    a
}

fn kg_mk(k: KG, v: &[u64]) -> (IgmpHeader, Vec<u8>) {
    use igmp::*;
    let c = *v.last().unwrap() as u16;
    let (t, r) = match k {
        KG::Query => {
            let g: [u8; 4] = arr(v[1], 0);
            (IgmpType::MembershipQuery(MembershipQueryType { max_response_time: v[0] as u8, group_address: GroupAddress { octets: g } }), rf::igmp8(0x11, v[0] as u8, c, g))
        }
        KG::QueryV3 => {
            let g: [u8; 4] = arr(v[1], 0);
            (
                IgmpType::MembershipQueryWithSources(MembershipQueryWithSourcesHeader { max_response_code: MaxResponseCode(v[0] as u8), group_address: GroupAddress { octets: g }, raw_byte_8: v[2] as u8, qqic: v[3] as u8, num_of_sources: v[4] as u16 }),
                rf::igmp_query_v3(v[0] as u8, c, g, v[2] as u8, v[3] as u8, v[4] as u16),
            )
        }
        KG::RepV1 => {
            let g: [u8; 4] = arr(v[0], 0);
            (IgmpType::MembershipReportV1(MembershipReportV1Type { group_address: GroupAddress { octets: g } }), rf::igmp8(0x12, 0, c, g))
        }
        KG::RepV2 => {
            let g: [u8; 4] = arr(v[0], 0);
            (IgmpType::MembershipReportV2(MembershipReportV2Type { group_address: GroupAddress { octets: g } }), rf::igmp8(0x16, 0, c, g))
        }
        KG::Leave => {
            let g: [u8; 4] = arr(v[0], 0);
            (IgmpType::LeaveGroup(LeaveGroupType { group_address: GroupAddress { octets: g } }), rf::igmp8(0x17, 0, c, g))
        }
        // RFC 3376 §4.2 / RFC 9776: Type=0x22 Reserved(8) Checksum(16) Flags(16) Number of Group Records(16)
        KG::RepV3 => {
            let f: [u8; 2] = arr(v[0], 0);
            let n = v[1] as u16;
            (IgmpType::MembershipReportV3(MembershipReportV3Header { flags: f, num_of_records: n }), rf::igmp8(0x22, 0, c, [f[0], f[1], (n >> 8) as u8, n as u8]))
        }
        KG::Unknown(t) => {
            assert!(!rf::igmp_typed(t));
            let b: [u8; 4] = arr(v[1], 0);
            (IgmpType::Unknown(UnknownHeader { igmp_type: t, raw_byte_1: v[0] as u8, raw_bytes_4_7: b }), rf::igmp8(t, v[0] as u8, c, b))
        }
    };
    (IgmpHeader { igmp_type: t, checksum: c }, r)
}

pub struct Igmp;
impl Ty for Igmp {
    type V = IgmpHeader;
    const NAME: &'static str = "IgmpHeader";
    fn variants(_: bool) -> usize {
        kg_list().len()
    }
    fn alphabets(th: bool, variant: usize) -> Vec<Vec<u64>> {
        kg_alph(kg_list()[variant], th)
    }
    fn build(_: bool, variant: usize, v: &[u64]) -> Option<(Self::V, Vec<u8>)> {
        Some(kg_mk(kg_list()[variant], v))
    }
    fn header_len(v: &Self::V) -> usize {
        v.header_len()
    }
    fn ser(v: &Self::V) -> Vec<(&'static str, Vec<u8>)> {
        vec![("to_bytes", v.to_bytes().to_vec())]
    }
    fn ser_special(v: &Self::V, r: &[u8]) -> Vec<(&'static str, Vec<u8>, Vec<u8>)> {
        // RFC 2236 §2.3: checksum over the whole IGMP message with a zero checksum field
        let mut z = r.to_vec();
        z[2] = 0;
        z[3] = 0;
        let c = rf::rfc1071(&[&z[..], &PAYLOAD[..]].concat());
        vec![("IgmpHeader::with_checksum(type, payload)", IgmpHeader::with_checksum(v.igmp_type.clone(), &PAYLOAD).to_bytes().to_vec(), patch_csum(z, c))]
    }
    fn dec0(b: &[u8]) -> Dec<Self::V> {
        sl(b, IgmpHeader::from_slice(b))
    }
    fn mask(b: &[u8], m: &mut [u8]) {
        rf::mask_igmp(b, m)
    }
    fn extra_bases(_: bool) -> Vec<(usize, Vec<u64>)> {
        vec![(0, vec![0x5a, 2, 0x1234]), (1, vec![0x5a, 2, 0x6b, 0x7c, 0x8d8e, 0x1234]), (2, vec![2, 0x1234]), (3, vec![2, 0x1234]), (4, vec![2, 0x5a5b, 0x1234]), (5, vec![2, 0x1234]), (8, vec![0x5a, 2, 0x1234])]
    }
}

pub struct GroupRec;
impl Ty for GroupRec {
    type V = igmp::ReportGroupRecordV3Header;
    const NAME: &'static str = "ReportGroupRecordV3Header";
    fn alphabets(th: bool, _: usize) -> Vec<Vec<u64>> {
        vec![with(ints(8, 0, th), &[2, 3, 4, 5, 6, 7]), ints(8, 1, th), ints(16, 2, th), pats(th)]
    }
    fn build(_: bool, _: usize, v: &[u64]) -> Option<(Self::V, Vec<u8>)> {
        let a: [u8; 4] = arr(v[3], 0);
        Some((igmp::ReportGroupRecordV3Header { record_type: igmp::ReportGroupRecordType(v[0] as u8), aux_data_len: v[1] as u8, num_of_sources: v[2] as u16, multicast_address: a }, rf::igmp_group_record(v[0] as u8, v[1] as u8, v[2] as u16, a)))
    }
    fn header_len(_: &Self::V) -> usize {
        igmp::ReportGroupRecordV3Header::LEN
    }
    fn ser(v: &Self::V) -> Vec<(&'static str, Vec<u8>)> {
        vec![("to_bytes", v.to_bytes().to_vec())]
    }
    fn dec0(b: &[u8]) -> Dec<Self::V> {
        sl(b, igmp::ReportGroupRecordV3Header::from_slice(b))
    }
}

pub struct Prefix;
impl Ty for Prefix {
    type V = icmpv6::PrefixInformation;
    const NAME: &'static str = "PrefixInformation";
    fn alphabets(th: bool, _: usize) -> Vec<Vec<u64>> {
        vec![with(ints(8, 0, th), &[64, 128, 129]), bools(), bools(), ints(32, 1, th), ints(32, 2, th), pats(th)]
    }
    fn build(_: bool, _: usize, v: &[u64]) -> Option<(Self::V, Vec<u8>)> {
        let p: [u8; 16] = arr(v[5], 0);
        Some((
            icmpv6::PrefixInformation { prefix_length: v[0] as u8, on_link: v[1] != 0, autonomous_address_configuration: v[2] != 0, valid_lifetime: v[3] as u32, preferred_lifetime: v[4] as u32, prefix: p },
            rf::ndp_prefix_information(v[0] as u8, v[1] != 0, v[2] != 0, v[3] as u32, v[4] as u32, &p),
        ))
    }
    fn header_len(_: &Self::V) -> usize {
        icmpv6::PrefixInformation::LEN
    }
    fn ser(v: &Self::V) -> Vec<(&'static str, Vec<u8>)> {
        vec![("to_bytes", v.to_bytes().to_vec())]
    }
    fn dec0(b: &[u8]) -> Dec<Self::V> {
        icmpv6::PrefixInformation::from_slice(b).map(|p| (p, b.len())).map_err(dbg)
    }
    fn dec_more(b: &[u8]) -> Vec<(&'static str, Dec<Self::V>)> {
        vec![
            ("from_bytes", if b.len() == 32 { icmpv6::PrefixInformation::from_bytes(b.try_into().unwrap()).map(|p| (p, 32)).map_err(dbg) } else { Err("len".into()) }),
            ("PrefixInformationOptionSlice::prefix_information", icmpv6::PrefixInformationOptionSlice::from_slice(b).map(|s| (s.prefix_information(), s.as_bytes().len())).map_err(dbg)),
        ]
    }
    fn mask(_b: &[u8], m: &mut [u8]) {
        rf::mask_ndp_prefix(m)
    }
}
