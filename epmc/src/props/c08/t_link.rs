//! C08 adapters: link layer (Ethernet II, Linux SLL, VLAN, MACsec)

use super::refenc as rf;
use super::ty::*;
use etherparse::*;

pub struct Eth;
impl Ty for Eth {
    type V = Ethernet2Header;
    const NAME: &'static str = "Ethernet2Header";
    fn alphabets(th: bool, _: usize) -> Vec<Vec<u64>> {
        vec![pats(th), pats(th), ether_types(th)]
    }
    fn build(_: bool, _: usize, v: &[u64]) -> Option<(Self::V, Vec<u8>)> {
        let dst: [u8; 6] = arr(v[0], 0);
        let src: [u8; 6] = arr(v[1], 1);
        let et = v[2] as u16;
        Some((Ethernet2Header { source: src, destination: dst, ether_type: EtherType(et) }, rf::ethernet2(&dst, &src, et)))
    }
    fn header_len(v: &Self::V) -> usize {
        v.header_len()
    }
    fn ser(v: &Self::V) -> Vec<(&'static str, Vec<u8>)> {
        vec![
            ("to_bytes", v.to_bytes().to_vec()),
            ("write", wr(|w| v.write(w).unwrap())),
            ("write_to_slice", {
                let mut buf = [0xaau8; 17];
                let n = {
                    let rest = v.write_to_slice(&mut buf).unwrap();
                    rest.len()
                };
                buf[..17 - n].to_vec()
            }),
        ]
    }
    fn ser_special(v: &Self::V, r: &[u8]) -> Vec<(&'static str, Vec<u8>, Vec<u8>)> {
        let w = LinkHeader::Ethernet2(v.clone());
        vec![("LinkHeader::Ethernet2.write", wr(|o| w.write(o).unwrap()), r.to_vec()), ("LinkHeader::Ethernet2.header_len", (w.header_len() as u64).to_be_bytes().to_vec(), (r.len() as u64).to_be_bytes().to_vec())]
    }
    fn dec0(b: &[u8]) -> Dec<Self::V> {
        sl(b, Ethernet2Header::from_slice(b))
    }
    fn dec_more(b: &[u8]) -> Vec<(&'static str, Dec<Self::V>)> {
        vec![
            ("read", cur(b, |c| Ethernet2Header::read(c))),
            ("from_bytes", if b.len() >= 14 { Ok((Ethernet2Header::from_bytes(b[..14].try_into().unwrap()), 14)) } else { Err("short".into()) }),
            ("Ethernet2HeaderSlice::to_header", Ethernet2HeaderSlice::from_slice(b).map(|s| (s.to_header(), s.slice().len())).map_err(dbg)),
        ]
    }
}

/// numbers with a `LinuxNonstandardEtherType` constant (linux/if_ether.h "Non DIX types")
fn sll_nonstandard(p: u16) -> bool {
    matches!(p, 0x0001..=0x0009 | 0x000c..=0x000e | 0x0010 | 0x0011 | 0x0015..=0x001c | 0x00f5..=0x00fa)
}

pub struct Sll;
impl Ty for Sll {
    type V = LinuxSllHeader;
    const NAME: &'static str = "LinuxSllHeader";
    fn alphabets(th: bool, _: usize) -> Vec<Vec<u64>> {
        // (ARPHRD, protocol) pairs: the five supported ARPHRD values; for ARPHRD_ETHER every non-DIX
        // number, the numbers next to them and ordinary ether types
        let mut combos = vec![];
        for hrd in [824u64, 778, 803, 770] {
            for p in ints(16, 3, th) {
                combos.push((hrd << 16) | p);
            }
        }
        let mut eth: Vec<u64> = (0..=0x1e).collect();
        eth.extend([0xf4, 0xf5, 0xf6, 0xf7, 0xf8, 0xf9, 0xfa, 0xfb, 0x0800, 0x86dd]);
        eth.extend(ints(16, 3, th));
        eth.sort();
        eth.dedup();
        for p in eth {
            combos.push((1u64 << 16) | p);
        }
        combos.sort();
        vec![range(8), combos, ints(16, 1, th), pats(th)]
    }
    fn build(_: bool, _: usize, v: &[u64]) -> Option<(Self::V, Vec<u8>)> {
        let pt = v[0] as u16;
        let hrd = (v[1] >> 16) as u16;
        let proto = v[1] as u16;
        let alen = v[2] as u16;
        let addr: [u8; 8] = arr(v[3], 2);
        let protocol_type = match hrd {
            824 => LinuxSllProtocolType::NetlinkProtocolType(proto),
            778 => LinuxSllProtocolType::GenericRoutingEncapsulationProtocolType(proto),
            803 | 770 => LinuxSllProtocolType::Ignored(proto),
            1 => {
                if sll_nonstandard(proto) {
                    LinuxSllProtocolType::LinuxNonstandardEtherType(LinuxNonstandardEtherType::try_from(proto).ok()?)
                } else {
                    LinuxSllProtocolType::EtherType(EtherType(proto))
                }
            }
            _ => return None,
        };
        let h = LinuxSllHeader { packet_type: LinuxSllPacketType::try_from(pt).ok()?, arp_hrd_type: ArpHardwareId(hrd), sender_address_valid_length: alen, sender_address: addr, protocol_type };
        Some((h, rf::linux_sll(pt, hrd, alen, &addr, proto)))
    }
    fn header_len(v: &Self::V) -> usize {
        v.header_len()
    }
    fn ser(v: &Self::V) -> Vec<(&'static str, Vec<u8>)> {
        vec![
            ("to_bytes", v.to_bytes().to_vec()),
            ("write", wr(|w| v.write(w).unwrap())),
            ("write_to_slice", {
                let mut buf = [0xaau8; 19];
                let n = {
                    let rest = v.write_to_slice(&mut buf).unwrap();
                    rest.len()
                };
                buf[..19 - n].to_vec()
            }),
        ]
    }
    fn ser_special(v: &Self::V, r: &[u8]) -> Vec<(&'static str, Vec<u8>, Vec<u8>)> {
        let w = LinkHeader::LinuxSll(v.clone());
        vec![("LinkHeader::LinuxSll.write", wr(|o| w.write(o).unwrap()), r.to_vec()), ("LinkHeader::LinuxSll.header_len", (w.header_len() as u64).to_be_bytes().to_vec(), (r.len() as u64).to_be_bytes().to_vec())]
    }
    fn dec0(b: &[u8]) -> Dec<Self::V> {
        sl(b, LinuxSllHeader::from_slice(b))
    }
    fn dec_more(b: &[u8]) -> Vec<(&'static str, Dec<Self::V>)> {
        vec![
            ("read", cur(b, |c| LinuxSllHeader::read(c))),
            ("from_bytes", if b.len() >= 16 { LinuxSllHeader::from_bytes(b[..16].try_into().unwrap()).map(|h| (h, 16)).map_err(dbg) } else { Err("short".into()) }),
        ]
    }
}

fn mk_vlan(pcp: u64, dei: u64, vid: u64, et: u64) -> (SingleVlanHeader, Vec<u8>) {
    (
        SingleVlanHeader { pcp: VlanPcp::try_new(pcp as u8).unwrap(), drop_eligible_indicator: dei != 0, vlan_id: VlanId::try_new(vid as u16).unwrap(), ether_type: EtherType(et as u16) },
        rf::vlan(pcp as u8, dei != 0, vid as u16, et as u16),
    )
}

pub struct Vlan;
impl Ty for Vlan {
    type V = SingleVlanHeader;
    const NAME: &'static str = "SingleVlanHeader";
    fn alphabets(th: bool, _: usize) -> Vec<Vec<u64>> {
        vec![range(8), bools(), if th { range(4096) } else { ints(12, 0, true) }, ether_types(th)]
    }
    fn build(_: bool, _: usize, v: &[u64]) -> Option<(Self::V, Vec<u8>)> {
        Some(mk_vlan(v[0], v[1], v[2], v[3]))
    }
    fn header_len(v: &Self::V) -> usize {
        v.header_len()
    }
    fn ser(v: &Self::V) -> Vec<(&'static str, Vec<u8>)> {
        vec![("to_bytes", v.to_bytes().to_vec()), ("write", wr(|w| v.write(w).unwrap()))]
    }
    fn dec0(b: &[u8]) -> Dec<Self::V> {
        sl(b, SingleVlanHeader::from_slice(b))
    }
    fn dec_more(b: &[u8]) -> Vec<(&'static str, Dec<Self::V>)> {
        vec![
            ("read", cur(b, |c| SingleVlanHeader::read(c))),
            ("from_bytes", if b.len() >= 4 { Ok((SingleVlanHeader::from_bytes(b[..4].try_into().unwrap()), 4)) } else { Err("short".into()) }),
            ("SingleVlanHeaderSlice::to_header", SingleVlanHeaderSlice::from_slice(b).map(|s| (s.to_header(), s.slice().len())).map_err(dbg)),
        ]
    }
}

/// `DoubleVlanHeader` has no serialiser of its own: outer and inner tag are written one after the other
pub struct DVlan;
impl Ty for DVlan {
    type V = DoubleVlanHeader;
    const NAME: &'static str = "DoubleVlanHeader";
    const DEC0: &'static str = "SingleVlanHeader::from_slice x2";
    fn alphabets(th: bool, _: usize) -> Vec<Vec<u64>> {
        let et = vec![0u64, 0x8100, 0x88a8, 0x5a5b, 0xffff];
        vec![vec![0, 5, 7], bools(), ints(12, 0, th), et.clone(), vec![0, 2, 7], bools(), ints(12, 1, th), et]
    }
    fn build(_: bool, _: usize, v: &[u64]) -> Option<(Self::V, Vec<u8>)> {
        let (o, mut r) = mk_vlan(v[0], v[1], v[2], v[3]);
        let (i, r2) = mk_vlan(v[4], v[5], v[6], v[7]);
        r.extend(r2);
        Some((DoubleVlanHeader { outer: o, inner: i }, r))
    }
    fn header_len(v: &Self::V) -> usize {
        v.outer.header_len() + v.inner.header_len()
    }
    fn ser(v: &Self::V) -> Vec<(&'static str, Vec<u8>)> {
        vec![
            ("outer.to_bytes+inner.to_bytes", [v.outer.to_bytes(), v.inner.to_bytes()].concat()),
            ("outer.write+inner.write", wr(|w| {
                v.outer.write(w).unwrap();
                v.inner.write(w).unwrap()
            })),
        ]
    }
    fn dec0(b: &[u8]) -> Dec<Self::V> {
        let (o, rest) = SingleVlanHeader::from_slice(b).map_err(dbg)?;
        let (i, rest) = SingleVlanHeader::from_slice(rest).map_err(dbg)?;
        Ok((DoubleVlanHeader { outer: o, inner: i }, b.len() - rest.len()))
    }
}

pub struct Macsec;
const MS_UNMOD: u64 = 0x1_0000;
impl Ty for Macsec {
    type V = MacsecHeader;
    const NAME: &'static str = "MacsecHeader";
    fn alphabets(th: bool, _: usize) -> Vec<Vec<u64>> {
        // ptype: 0 Modified, 1 Encrypted, 2 EncryptedUnmodified, 0x10000|t Unmodified(t)
        let mut pt = vec![0u64, 1, 2];
        for t in ether_types(false) {
            pt.push(MS_UNMOD | t);
        }
        vec![pt, bools(), bools(), range(4), range(64), ints(32, 0, th), bools(), ints(64, 1, th)]
    }
    fn build(_: bool, _: usize, v: &[u64]) -> Option<(Self::V, Vec<u8>)> {
        let unmod = v[0] & MS_UNMOD != 0;
        let et = if unmod { Some(v[0] as u16) } else { None };
        // IEEE 802.1AE: E,C bits; etherparse names the combinations
        let (ptype, e, c) = match v[0] {
            0 => (MacsecPType::Modified, false, true),
            1 => (MacsecPType::Encrypted, true, true),
            2 => (MacsecPType::EncryptedUnmodified, true, false),
            _ => (MacsecPType::Unmodified(EtherType(v[0] as u16)), false, false),
        };
        let sl = v[4] as u8;
        // an unmodified payload contains at least the 2 byte ether type: short length 1 is inconsistent (the decoder rejects it)
        if unmod && sl == 1 {
            return None;
        }
        let sci = if v[6] != 0 {
            Some(v[7])
        } else {
            if v[7] != 0 {
                return None; // no SCI: its value is not part of the value
            }
            None
        };
        let h = MacsecHeader { ptype, endstation_id: v[1] != 0, scb: v[2] != 0, an: MacsecAn::try_new(v[3] as u8).unwrap(), short_len: MacsecShortLen::try_from_u8(sl).unwrap(), packet_nr: v[5] as u32, sci };
        Some((h, rf::macsec(v[1] != 0, v[2] != 0, e, c, v[3] as u8, sl, v[5] as u32, sci, et)))
    }
    fn header_len(v: &Self::V) -> usize {
        v.header_len()
    }
    fn ser(v: &Self::V) -> Vec<(&'static str, Vec<u8>)> {
        vec![("to_bytes", v.to_bytes().to_vec()), ("write", wr(|w| v.write(w).unwrap()))]
    }
    fn dec0(b: &[u8]) -> Dec<Self::V> {
        let h = MacsecHeader::from_slice(b).map_err(dbg)?;
        let n = MacsecHeaderSlice::from_slice(b).map_err(dbg)?.slice().len();
        Ok((h, n))
    }
    fn dec_more(b: &[u8]) -> Vec<(&'static str, Dec<Self::V>)> {
        vec![("read", cur(b, |c| MacsecHeader::read(c)))]
    }
    fn mask(_b: &[u8], m: &mut [u8]) {
        rf::mask_macsec(m)
    }
    fn extra_bases(_th: bool) -> Vec<(usize, Vec<u64>)> {
        // the four layouts: with/without SCI x with/without ether type
        vec![(0, vec![0, 1, 0, 2, 0x2a, 0x5a5b5c5d, 1, 0x6b6c6d6e6f707172]), (0, vec![MS_UNMOD | 0x0800, 0, 1, 1, 0x15, 0x5a5b5c5d, 0, 0]), (0, vec![2, 1, 1, 3, 63, 0xffffffff, 0, 0])]
    }
}
