//! C08 reference side: independent field-by-field big-endian encoders written from the RFC /
//! IEEE header diagrams (a bit writer that appends fields most-significant-bit first, exactly
//! as the diagrams are drawn), an independent RFC 1071 checksum, the "has a typed variant"
//! predicates for ICMP/IGMP type/code numbers and the table of reserved / normalised bits
//! (`mask_*`) with the clause that reserves them.
//!
//! Nothing in here calls etherparse.

/// appends fields MSB first, like an RFC "0 1 2 3 ..." diagram read left to right
pub struct BitW {
    buf: Vec<u8>,
    nbits: usize,
}

impl BitW {
    pub fn new() -> BitW {
        BitW { buf: Vec::with_capacity(64), nbits: 0 }
    }
    pub fn put(&mut self, bits: usize, v: u64) -> &mut BitW {
        debug_assert!(bits == 64 || v < (1u64 << bits), "reference field value {} does not fit {} bits", v, bits);
        for k in (0..bits).rev() {
            if self.nbits % 8 == 0 {
                self.buf.push(0);
            }
            if (v >> k) & 1 == 1 {
                let last = self.buf.len() - 1;
                self.buf[last] |= 1 << (7 - (self.nbits % 8));
            }
            self.nbits += 1;
        }
        self
    }
    pub fn flag(&mut self, b: bool) -> &mut BitW {
        self.put(1, b as u64)
    }
    pub fn bytes(&mut self, b: &[u8]) -> &mut BitW {
        assert!(self.nbits % 8 == 0, "reference encoder: byte string at unaligned position");
        self.buf.extend_from_slice(b);
        self.nbits += 8 * b.len();
        self
    }
    pub fn done(&mut self) -> Vec<u8> {
        assert!(self.nbits % 8 == 0, "reference encoder: header does not end on a byte boundary");
        std::mem::take(&mut self.buf)
    }
}

/// RFC 1071: one's complement of the one's complement sum of all 16 bit words (odd trailing byte
/// padded with a zero byte on the right)
pub fn rfc1071(data: &[u8]) -> u16 {
    let mut sum: u64 = 0;
    let mut i = 0;
    while i + 1 < data.len() {
        sum += ((data[i] as u64) << 8) | data[i + 1] as u64;
        i += 2;
    }
    if i < data.len() {
        sum += (data[i] as u64) << 8;
    }
    while sum >> 16 != 0 {
        sum = (sum & 0xffff) + (sum >> 16);
    }
    !(sum as u16)
}

// ---- link layer ------------------------------------------------------------------------------

/// IEEE 802.3 / RFC 894: destination(6) source(6) type(2)
pub fn ethernet2(dst: &[u8; 6], src: &[u8; 6], ether_type: u16) -> Vec<u8> {
    BitW::new().bytes(dst).bytes(src).put(16, ether_type as u64).done()
}

/// LINKTYPE_LINUX_SLL (tcpdump.org): packet type(2) ARPHRD(2) address length(2) address(8) protocol(2)
pub fn linux_sll(packet_type: u16, arphrd: u16, addr_len: u16, addr: &[u8; 8], protocol: u16) -> Vec<u8> {
    BitW::new().put(16, packet_type as u64).put(16, arphrd as u64).put(16, addr_len as u64).bytes(addr).put(16, protocol as u64).done()
}

/// IEEE 802.1Q TCI: PCP(3) DEI(1) VID(12), followed by the type of what follows (2)
pub fn vlan(pcp: u8, dei: bool, vid: u16, ether_type: u16) -> Vec<u8> {
    BitW::new().put(3, pcp as u64).flag(dei).put(12, vid as u64).put(16, ether_type as u64).done()
}

/// IEEE 802.1AE-2018 clause 9 SecTAG (without the MACsec ether type itself):
/// TCI: V(1)=0 ES(1) SC(1) SCB(1) E(1) C(1), AN(2); octet 2: two zero bits, SL(6); PN(4); SCI(8) iff SC;
/// for E=0,C=0 the secure data starts with the user's ether type, which etherparse makes part of the header.
pub fn macsec(es: bool, scb: bool, e: bool, c: bool, an: u8, sl: u8, pn: u32, sci: Option<u64>, next_ether_type: Option<u16>) -> Vec<u8> {
    let mut w = BitW::new();
    w.put(1, 0).flag(es).flag(sci.is_some()).flag(scb).flag(e).flag(c).put(2, an as u64);
    w.put(2, 0).put(6, sl as u64);
    w.put(32, pn as u64);
    if let Some(s) = sci {
        w.put(64, s);
    }
    if let Some(t) = next_ether_type {
        w.put(16, t as u64);
    }
    w.done()
}

// ---- net layer -------------------------------------------------------------------------------

/// RFC 826: hrd(2) pro(2) hln(1) pln(1) op(2) sha(hln) spa(pln) tha(hln) tpa(pln)
pub fn arp(hrd: u16, pro: u16, op: u16, sha: &[u8], spa: &[u8], tha: &[u8], tpa: &[u8]) -> Vec<u8> {
    assert!(sha.len() == tha.len() && spa.len() == tpa.len() && sha.len() < 256 && spa.len() < 256);
    BitW::new().put(16, hrd as u64).put(16, pro as u64).put(8, sha.len() as u64).put(8, spa.len() as u64).put(16, op as u64).bytes(sha).bytes(spa).bytes(tha).bytes(tpa).done()
}

pub struct V4 {
    pub dscp: u8,
    pub ecn: u8,
    pub total_len: u16,
    pub id: u16,
    pub df: bool,
    pub mf: bool,
    pub frag: u16,
    pub ttl: u8,
    pub proto: u8,
    pub csum: u16,
    pub src: [u8; 4],
    pub dst: [u8; 4],
    pub opts: Vec<u8>,
}

/// RFC 791 §3.1 (DSCP/ECN: RFC 2474 / RFC 3168): Version(4)=4 IHL(4) DSCP(6) ECN(2) Total Length(16)
/// Identification(16) Flags(3: reserved=0, DF, MF) Fragment Offset(13) TTL(8) Protocol(8) Header Checksum(16)
/// Source(32) Destination(32) Options(IHL*4-20)
pub fn ipv4(h: &V4) -> Vec<u8> {
    assert!(h.opts.len() % 4 == 0 && h.opts.len() <= 40);
    let mut w = BitW::new();
    w.put(4, 4).put(4, (5 + h.opts.len() / 4) as u64).put(6, h.dscp as u64).put(2, h.ecn as u64).put(16, h.total_len as u64);
    w.put(16, h.id as u64).put(1, 0).flag(h.df).flag(h.mf).put(13, h.frag as u64);
    w.put(8, h.ttl as u64).put(8, h.proto as u64).put(16, h.csum as u64);
    w.bytes(&h.src).bytes(&h.dst).bytes(&h.opts);
    w.done()
}

/// the header checksum of RFC 791: RFC 1071 over the header with a zero checksum field
pub fn ipv4_checksum_of(encoded: &[u8]) -> u16 {
    let mut t = encoded.to_vec();
    t[10] = 0;
    t[11] = 0;
    rfc1071(&t)
}

/// RFC 8200 §3: Version(4)=6 Traffic Class(8) Flow Label(20) Payload Length(16) Next Header(8) Hop Limit(8) src(128) dst(128)
pub fn ipv6(tc: u8, flow: u32, payload_len: u16, next: u8, hop: u8, src: &[u8; 16], dst: &[u8; 16]) -> Vec<u8> {
    BitW::new().put(4, 6).put(8, tc as u64).put(20, flow as u64).put(16, payload_len as u64).put(8, next as u64).put(8, hop as u64).bytes(src).bytes(dst).done()
}

/// RFC 4302 §2: Next Header(8) Payload Len(8) = length in 32 bit words minus 2, RESERVED(16)=0, SPI(32), Sequence Number(32), ICV
pub fn auth(next: u8, spi: u32, seq: u32, icv: &[u8]) -> Vec<u8> {
    assert!(icv.len() % 4 == 0);
    let words = (12 + icv.len()) / 4;
    BitW::new().put(8, next as u64).put(8, (words - 2) as u64).put(16, 0).put(32, spi as u64).put(32, seq as u64).bytes(icv).done()
}

/// RFC 8200 §4.3 / §4.4 / §4.6 (generic layout of hop-by-hop, routing, destination options):
/// Next Header(8) Hdr Ext Len(8) = length in 8 octet units not counting the first 8 octets, then the type specific data
pub fn raw_ext(next: u8, payload: &[u8]) -> Vec<u8> {
    assert!((payload.len() + 2) % 8 == 0 && payload.len() >= 6);
    BitW::new().put(8, next as u64).put(8, ((payload.len() + 2) / 8 - 1) as u64).bytes(payload).done()
}

/// RFC 8200 §4.5: Next Header(8) Reserved(8)=0 Fragment Offset(13) Res(2)=0 M(1) Identification(32)
pub fn frag(next: u8, off: u16, more: bool, id: u32) -> Vec<u8> {
    BitW::new().put(8, next as u64).put(8, 0).put(13, off as u64).put(2, 0).flag(more).put(32, id as u64).done()
}

// ---- transport -------------------------------------------------------------------------------

/// RFC 768
pub fn udp(sp: u16, dp: u16, len: u16, csum: u16) -> Vec<u8> {
    BitW::new().put(16, sp as u64).put(16, dp as u64).put(16, len as u64).put(16, csum as u64).done()
}

pub struct Tcp {
    pub sp: u16,
    pub dp: u16,
    pub seq: u32,
    pub ack_nr: u32,
    pub ns: bool,
    pub fin: bool,
    pub syn: bool,
    pub rst: bool,
    pub psh: bool,
    pub ack: bool,
    pub urg: bool,
    pub ece: bool,
    pub cwr: bool,
    pub win: u16,
    pub csum: u16,
    pub urgp: u16,
    pub opts: Vec<u8>,
}

/// RFC 9293 §3.1 (+ RFC 3540 NS bit, the last of the former reserved bits): Source Port(16) Destination Port(16)
/// Sequence Number(32) Acknowledgment Number(32) Data Offset(4) Rsrvd(3)=0 NS(1) CWR ECE URG ACK PSH RST SYN FIN
/// Window(16) Checksum(16) Urgent Pointer(16) Options
pub fn tcp(h: &Tcp) -> Vec<u8> {
    assert!(h.opts.len() % 4 == 0 && h.opts.len() <= 40);
    let mut w = BitW::new();
    w.put(16, h.sp as u64).put(16, h.dp as u64).put(32, h.seq as u64).put(32, h.ack_nr as u64);
    w.put(4, (5 + h.opts.len() / 4) as u64).put(3, 0).flag(h.ns);
    w.flag(h.cwr).flag(h.ece).flag(h.urg).flag(h.ack).flag(h.psh).flag(h.rst).flag(h.syn).flag(h.fin);
    w.put(16, h.win as u64).put(16, h.csum as u64).put(16, h.urgp as u64).bytes(&h.opts);
    w.done()
}

#[derive(Clone, Debug, PartialEq)]
pub enum TcpOpt {
    Nop,
    Mss(u16),
    Ws(u8),
    SackPerm,
    /// 1..=4 blocks
    Sack(Vec<(u32, u32)>),
    Ts(u32, u32),
}

/// RFC 9293 §3.1 (NOP kind 1, MSS kind 2 length 4), RFC 7323 (window scale kind 3 length 3, timestamps kind 8
/// length 10), RFC 2018 (SACK permitted kind 4 length 2, SACK kind 5 length 2+8n); the list is padded with
/// End-of-option-list (0) octets to a multiple of 4
pub fn tcp_options(elems: &[TcpOpt]) -> Vec<u8> {
    let mut w = BitW::new();
    for e in elems {
        match e {
            TcpOpt::Nop => {
                w.put(8, 1);
            }
            TcpOpt::Mss(v) => {
                w.put(8, 2).put(8, 4).put(16, *v as u64);
            }
            TcpOpt::Ws(v) => {
                w.put(8, 3).put(8, 3).put(8, *v as u64);
            }
            TcpOpt::SackPerm => {
                w.put(8, 4).put(8, 2);
            }
            TcpOpt::Sack(blocks) => {
                w.put(8, 5).put(8, (2 + 8 * blocks.len()) as u64);
                for (l, r) in blocks {
                    w.put(32, *l as u64).put(32, *r as u64);
                }
            }
            TcpOpt::Ts(a, b) => {
                w.put(8, 8).put(8, 10).put(32, *a as u64).put(32, *b as u64);
            }
        }
    }
    let mut out = w.done();
    while out.len() % 4 != 0 {
        out.push(0);
    }
    out
}

/// generic ICMP layout (RFC 792 / RFC 4443): Type(8) Code(8) Checksum(16) then 4 type specific octets
pub fn icmp8(t: u8, code: u8, csum: u16, rest: [u8; 4]) -> Vec<u8> {
    BitW::new().put(8, t as u64).put(8, code as u64).put(16, csum as u64).bytes(&rest).done()
}

pub fn be16x2(a: u16, b: u16) -> [u8; 4] {
    [(a >> 8) as u8, a as u8, (b >> 8) as u8, b as u8]
}
pub fn be32(a: u32) -> [u8; 4] {
    [(a >> 24) as u8, (a >> 16) as u8, (a >> 8) as u8, a as u8]
}

/// RFC 792 timestamp / timestamp reply: Type Code=0 Checksum Identifier(16) Sequence Number(16) Originate(32) Receive(32) Transmit(32)
pub fn icmp4_timestamp(t: u8, csum: u16, id: u16, seq: u16, o: u32, r: u32, x: u32) -> Vec<u8> {
    BitW::new().put(8, t as u64).put(8, 0).put(16, csum as u64).put(16, id as u64).put(16, seq as u64).put(32, o as u64).put(32, r as u64).put(32, x as u64).done()
}

/// (type, code) numbers of ICMPv4 for which etherparse documents a typed variant
/// (RFC 792: 0 echo reply, 3 destination unreachable codes 0-5, 5 redirect codes 0-3, 8 echo, 11 time exceeded 0-1,
/// 12 parameter problem code 0, 13/14 timestamp; RFC 1122/1812: destination unreachable codes 6-15, parameter problem 1-2)
pub fn icmp4_typed(t: u8, code: u8) -> bool {
    match t {
        0 | 8 | 13 | 14 => code == 0,
        3 => code <= 15,
        5 => code <= 3,
        11 => code <= 1,
        12 => code <= 2,
        _ => false,
    }
}

/// (type, code) numbers of ICMPv6 with a typed variant (RFC 4443: 1 codes 0-6, 2, 3 codes 0-1, 4 codes 0-10 (IANA),
/// 128, 129; RFC 4861: 133-137 with code 0)
pub fn icmp6_typed(t: u8, code: u8) -> bool {
    match t {
        1 => code <= 6,
        2 => code == 0,
        3 => code <= 1,
        4 => code <= 10,
        128 | 129 | 133 | 134 | 135 | 136 | 137 => code == 0,
        _ => false,
    }
}

/// IGMP message types with a typed variant (RFC 1112 0x12, RFC 2236 0x11 0x16 0x17, RFC 3376 0x22)
pub fn igmp_typed(t: u8) -> bool {
    matches!(t, 0x11 | 0x12 | 0x16 | 0x17 | 0x22)
}

/// RFC 2236 §2 / RFC 3376 §4: Type(8) Max Resp(8) Checksum(16) Group Address(32) [v3 query: Resv(4) S(1) QRV(3) QQIC(8) Number of Sources(16)]
pub fn igmp8(t: u8, b1: u8, csum: u16, b47: [u8; 4]) -> Vec<u8> {
    BitW::new().put(8, t as u64).put(8, b1 as u64).put(16, csum as u64).bytes(&b47).done()
}
pub fn igmp_query_v3(max_resp_code: u8, csum: u16, group: [u8; 4], byte8: u8, qqic: u8, nsrc: u16) -> Vec<u8> {
    BitW::new().put(8, 0x11).put(8, max_resp_code as u64).put(16, csum as u64).bytes(&group).put(8, byte8 as u64).put(8, qqic as u64).put(16, nsrc as u64).done()
}

/// RFC 3376 §4.2.4 group record: Record Type(8) Aux Data Len(8) Number of Sources(16) Multicast Address(32)
pub fn igmp_group_record(rt: u8, aux: u8, nsrc: u16, addr: [u8; 4]) -> Vec<u8> {
    BitW::new().put(8, rt as u64).put(8, aux as u64).put(16, nsrc as u64).bytes(&addr).done()
}

/// RFC 4861 §4.6.2: Type(8)=3 Length(8)=4 Prefix Length(8) L(1) A(1) Reserved1(6)=0 Valid Lifetime(32)
/// Preferred Lifetime(32) Reserved2(32)=0 Prefix(128)
pub fn ndp_prefix_information(plen: u8, l: bool, a: bool, valid: u32, preferred: u32, prefix: &[u8; 16]) -> Vec<u8> {
    BitW::new().put(8, 3).put(8, 4).put(8, plen as u64).flag(l).flag(a).put(6, 0).put(32, valid as u64).put(32, preferred as u64).put(32, 0).bytes(prefix).done()
}

/// RFC 8200 §8.1 pseudo header + message: src(128) dst(128) upper layer length(32) zero(24) next header(8)=58
pub fn icmp6_checksum(src: &[u8; 16], dst: &[u8; 16], msg_with_zero_checksum: &[u8]) -> u16 {
    let mut w = BitW::new();
    w.bytes(src).bytes(dst).put(32, msg_with_zero_checksum.len() as u64).put(24, 0).put(8, 58).bytes(msg_with_zero_checksum);
    rfc1071(&w.done())
}

// ---- masks: bits a decode -> encode round trip may change ------------------------------------------
//
// A set bit in the mask = "the format reserves this bit (sender sets 0, receiver ignores) or the
// type documents that it normalises it"; every other bit must be reproduced.

/// RFC 791 §3.1 Flags "Bit 0: reserved, must be zero" — `Ipv4Header` has no field for it
pub fn mask_ipv4(m: &mut [u8]) {
    if m.len() > 6 {
        m[6] |= 0x80;
    }
}
/// RFC 4302 §2.3: RESERVED 16 bits "MUST be set to zero by the sender, SHOULD be ignored by the recipient"
pub fn mask_auth(m: &mut [u8]) {
    for i in 2..4.min(m.len()) {
        m[i] = 0xff;
    }
}
/// RFC 8200 §4.5: Reserved (8 bit) and Res (2 bit) "Initialized to zero for transmission; ignored on reception"
pub fn mask_frag(m: &mut [u8]) {
    if m.len() >= 4 {
        m[1] = 0xff;
        m[3] |= 0x06;
    }
}
/// RFC 9293 §3.1 "Rsrvd: 4 bits ... must be zero in generated segments and must be ignored in received segments";
/// etherparse keeps the last of them as `ns` (RFC 3540), the other three have no field
pub fn mask_tcp(m: &mut [u8]) {
    if m.len() > 12 {
        m[12] |= 0x0e;
    }
}
/// IEEE 802.1AE §9.7: bits 7 and 8 of octet 4 (above the 6 bit short length) "shall be zero";
/// `MacsecShortLen` holds 6 bits only
pub fn mask_macsec(m: &mut [u8]) {
    if m.len() > 1 {
        m[1] |= 0xc0;
    }
}
/// ICMPv4 (first 8 octets of `b`): RFC 792 "unused" words of destination unreachable (RFC 1191: the upper 16 bits
/// stay unused for code 4), time exceeded, parameter problem (only the pointer octet is used, and only for code 0)
pub fn mask_icmp4(b: &[u8], m: &mut [u8]) {
    if b.len() < 8 {
        return;
    }
    let (t, c) = (b[0], b[1]);
    if !icmp4_typed(t, c) {
        return;
    }
    match t {
        3 => {
            if c == 4 {
                m[4] = 0xff;
                m[5] = 0xff;
            } else {
                for i in 4..8 {
                    m[i] = 0xff;
                }
            }
        }
        11 => {
            for i in 4..8 {
                m[i] = 0xff;
            }
        }
        12 => {
            let from = if c == 0 { 5 } else { 4 };
            for i in from..8 {
                m[i] = 0xff;
            }
        }
        _ => {}
    }
}
/// ICMPv6: RFC 4443 §3.1/§3.3 "Unused" of destination unreachable / time exceeded; RFC 4861 §4.1 RS Reserved(32),
/// §4.2 RA Reserved(6) after M|O, §4.3 NS Reserved(32), §4.4 NA Reserved(29) after R|S|O, §4.5 Redirect Reserved(32)
pub fn mask_icmp6(b: &[u8], m: &mut [u8]) {
    if b.len() < 8 {
        return;
    }
    let (t, c) = (b[0], b[1]);
    if !icmp6_typed(t, c) {
        return;
    }
    match t {
        1 | 3 | 133 | 135 | 137 => {
            for i in 4..8 {
                m[i] = 0xff;
            }
        }
        134 => m[5] |= 0x3f,
        136 => {
            m[4] |= 0x1f;
            for i in 5..8 {
                m[i] = 0xff;
            }
        }
        _ => {}
    }
}
/// IGMP: RFC 2236 §2.2 "Max Response Time is meaningful only in Membership Query messages ... in all other
/// messages it is set to zero by the sender and ignored by receivers"; RFC 3376 §4.2.1 Reserved octet of the v3 report
pub fn mask_igmp(b: &[u8], m: &mut [u8]) {
    if b.len() >= 2 && matches!(b[0], 0x12 | 0x16 | 0x17 | 0x22) {
        m[1] = 0xff;
    }
}
/// RFC 4861 §4.6.2: Reserved1 (6 bits) and Reserved2 (32 bits) "MUST be initialized to zero by the sender and MUST be ignored by the receiver"
pub fn mask_ndp_prefix(m: &mut [u8]) {
    if m.len() >= 16 {
        m[3] |= 0x3f;
        for i in 12..16 {
            m[i] = 0xff;
        }
    }
}
/// walks an IPv6 extension header chain (RFC 8200 §4: 0 hop-by-hop, 43 routing, 60 destination options with
/// Hdr Ext Len in 8 octet units; 44 fragment 8 octets; 51 AH RFC 4302 length (Payload Len+2)*4) over `b` and masks the
/// reserved fields of the fragment and authentication headers it passes
pub fn mask_ipv6_exts(start: u8, b: &[u8], m: &mut [u8]) {
    let mut next = start;
    let mut off = 0usize;
    loop {
        if off + 2 > b.len() {
            return;
        }
        let len = match next {
            0 | 43 | 60 => (b[off + 1] as usize + 1) * 8,
            44 => 8,
            51 => (b[off + 1] as usize + 2) * 4,
            _ => return,
        };
        if off + len > b.len() {
            return;
        }
        match next {
            44 => mask_frag(&mut m[off..off + len]),
            51 => mask_auth(&mut m[off..off + len]),
            _ => {}
        }
        next = b[off];
        off += len;
    }
}
