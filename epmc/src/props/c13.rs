//! C13 — TCP options encode and decode faithfully; iteration is bounded.
//!
//! Two enumerations, one oracle:
//!  * elements -> bytes: every list of option elements up to a depth over a small value alphabet
//!    (all six kinds, SACK with 0-3 extra blocks in canonical and gapped slot layouts) plus all
//!    size-class compositions whose wire length is 38..=44 bytes;
//!  * bytes -> elements: every sequence of "option tokens" (well-formed options, options whose
//!    length byte lies, unknown kinds) cut inside its last token or padded with 0x00/0x01/0xff to
//!    every total length up to 40, plus all short byte strings over the interesting byte values,
//!    plus every (kind byte, size byte) pair behind three prefixes at every total length.
//! Reading of "yields the same elements": the RFC 2018 wire format has no notion of an empty
//! slot, so a SelectiveAcknowledgement whose slot array has an empty slot in front of a filled one
//! (`[None, Some(b), None]`) and its compaction (`[Some(b), None, None]`) are the same option
//! on the wire; such an element must come back as exactly its compaction (same blocks, same
//! order), anything else is a violation (DESIGN.md 4/C13).
//! The oracle is a reference tokenizer written from RFC 9293 §3.1 (kinds 0,1,2), RFC 7323
//! (kinds 3, 8) and RFC 2018 (kinds 4, 5); it never calls etherparse.

use crate::fw::*;
use crate::mem::{self, Arena};
use etherparse::TcpOptionElement as El;
use etherparse::TcpOptionReadError as RErr;
use etherparse::{TcpHeader, TcpHeaderSlice, TcpOptionWriteError, TcpOptions, TcpOptionsIterator, TcpSlice};

pub struct C13;

// ------------------------------------------------------------------------------------------
// reference model

type Blk = (u32, u32);

/// reference option element (same shape as the crate's, own type so that nothing of the crate is used by the oracle)
#[derive(Clone, Copy, PartialEq, Eq)]
enum R {
    Noop,
    Mss(u16),
    Ws(u8),
    SackPerm,
    Sack(Blk, [Option<Blk>; 3]),
    Ts(u32, u32),
}

impl std::fmt::Debug for R {
    /// crate-like spelling with hexadecimal values
    fn fmt(&self, f: &mut std::fmt::Formatter<'_>) -> std::fmt::Result {
        match self {
            R::Noop => write!(f, "Noop"),
            R::Mss(v) => write!(f, "MaximumSegmentSize({:#06x})", v),
            R::Ws(v) => write!(f, "WindowScale({:#04x})", v),
            R::SackPerm => write!(f, "SelectiveAcknowledgementPermitted"),
            R::Sack(a, r) => {
                write!(f, "SelectiveAcknowledgement(({:#010x}, {:#010x}), [", a.0, a.1)?;
                for (i, x) in r.iter().enumerate() {
                    if i > 0 {
                        write!(f, ", ")?;
                    }
                    match x {
                        None => write!(f, "None")?,
                        Some(b) => write!(f, "Some(({:#010x}, {:#010x}))", b.0, b.1)?,
                    }
                }
                write!(f, "])")
            }
            R::Ts(a, b) => write!(f, "Timestamp({:#010x}, {:#010x})", a, b),
        }
    }
}

fn be16(b: &[u8]) -> u16 {
    ((b[0] as u16) << 8) | b[1] as u16
}
fn be32(b: &[u8]) -> u32 {
    ((b[0] as u32) << 24) | ((b[1] as u32) << 16) | ((b[2] as u32) << 8) | b[3] as u32
}
fn put32(out: &mut Vec<u8>, v: u32) {
    out.push((v >> 24) as u8);
    out.push((v >> 16) as u8);
    out.push((v >> 8) as u8);
    out.push(v as u8);
}

impl R {
    fn wire_len(&self) -> usize {
        match self {
            R::Noop => 1,
            R::Mss(_) => 4,
            R::Ws(_) => 3,
            R::SackPerm => 2,
            R::Sack(_, r) => 10 + 8 * r.iter().filter(|x| x.is_some()).count(),
            R::Ts(_, _) => 10,
        }
    }
    /// the blocks moved to the front slots (what the wire format, which has no notion of an empty slot, can carry)
    fn canonical(&self) -> R {
        match self {
            R::Sack(f, r) => {
                let mut o = [None; 3];
                let mut k = 0;
                for x in r.iter().flatten() {
                    o[k] = Some(*x);
                    k += 1;
                }
                R::Sack(*f, o)
            }
            x => *x,
        }
    }
    fn gapped(&self) -> bool {
        self.canonical() != *self
    }
    fn extra_blocks(&self) -> usize {
        match self {
            R::Sack(_, r) => r.iter().filter(|x| x.is_some()).count(),
            _ => 0,
        }
    }
    /// RFC wire form (RFC 2018: kind 5, length 8n+2, n contiguous blocks)
    fn encode(&self, out: &mut Vec<u8>) {
        match self {
            R::Noop => out.push(1),
            R::Mss(v) => out.extend_from_slice(&[2, 4, (*v >> 8) as u8, *v as u8]),
            R::Ws(v) => out.extend_from_slice(&[3, 3, *v]),
            R::SackPerm => out.extend_from_slice(&[4, 2]),
            R::Sack(f, r) => {
                out.push(5);
                out.push(self.wire_len() as u8);
                put32(out, f.0);
                put32(out, f.1);
                for b in r.iter().flatten() {
                    put32(out, b.0);
                    put32(out, b.1);
                }
            }
            R::Ts(a, b) => {
                out.push(8);
                out.push(10);
                put32(out, *a);
                put32(out, *b);
            }
        }
    }
    fn to_crate(&self) -> El {
        match self {
            R::Noop => El::Noop,
            R::Mss(v) => El::MaximumSegmentSize(*v),
            R::Ws(v) => El::WindowScale(*v),
            R::SackPerm => El::SelectiveAcknowledgementPermitted,
            R::Sack(f, r) => El::SelectiveAcknowledgement(*f, *r),
            R::Ts(a, b) => El::Timestamp(*a, *b),
        }
    }
    fn from_crate(e: &El) -> R {
        match e {
            El::Noop => R::Noop,
            El::MaximumSegmentSize(v) => R::Mss(*v),
            El::WindowScale(v) => R::Ws(*v),
            El::SelectiveAcknowledgementPermitted => R::SackPerm,
            El::SelectiveAcknowledgement(f, r) => R::Sack(*f, *r),
            El::Timestamp(a, b) => R::Ts(*a, *b),
        }
    }
    fn kind_name(&self) -> &'static str {
        match self {
            R::Noop => "Noop",
            R::Mss(_) => "Mss",
            R::Ws(_) => "Ws",
            R::SackPerm => "SackPerm",
            R::Sack(_, _) => "Sack",
            R::Ts(_, _) => "Ts",
        }
    }
}

/// fixed total length of the kinds that have one (RFC 9293: MSS 4; RFC 7323: WS 3, TS 10; RFC 2018: SACK-permitted 2)
fn fixed_len(kind: u8) -> Option<usize> {
    match kind {
        2 => Some(4),
        3 => Some(3),
        4 => Some(2),
        8 => Some(10),
        _ => None,
    }
}
fn sack_len_valid(l: u8) -> bool {
    l == 10 || l == 18 || l == 26 || l == 34
}

enum Step {
    /// no byte left
    Done,
    /// end-of-option-list kind
    End,
    /// a well-formed option and the number of bytes it occupies
    Elem(R, usize),
    /// malformed or unknown option: the facts an error has to state
    Bad { kind: u8, size: Option<u8>, remaining: usize },
}

/// one step of the reference tokenizer at `pos`
fn ref_step(a: &[u8], pos: usize) -> Step {
    let r = &a[pos..];
    if r.is_empty() {
        return Step::Done;
    }
    let kind = r[0];
    let bad = Step::Bad { kind, size: if r.len() >= 2 { Some(r[1]) } else { None }, remaining: r.len() };
    match kind {
        0 => Step::End,
        1 => Step::Elem(R::Noop, 1),
        2 | 3 | 4 | 8 => {
            let l = fixed_len(kind).unwrap();
            if r.len() >= 2 && r[1] as usize == l && r.len() >= l {
                let e = match kind {
                    2 => R::Mss(be16(&r[2..4])),
                    3 => R::Ws(r[2]),
                    4 => R::SackPerm,
                    _ => R::Ts(be32(&r[2..6]), be32(&r[6..10])),
                };
                Step::Elem(e, l)
            } else {
                bad
            }
        }
        5 => {
            if r.len() >= 2 && sack_len_valid(r[1]) && r.len() >= r[1] as usize {
                let l = r[1] as usize;
                let first = (be32(&r[2..6]), be32(&r[6..10]));
                let mut rest = [None; 3];
                for i in 0..(l - 10) / 8 {
                    let o = 10 + 8 * i;
                    rest[i] = Some((be32(&r[o..o + 4]), be32(&r[o + 4..o + 8])));
                }
                Step::Elem(R::Sack(first, rest), l)
            } else {
                bad
            }
        }
        _ => bad,
    }
}

/// is `e` a true statement about the malformed option (kind byte, size byte if there is one, bytes remaining)?
/// Where an option is broken in two ways (wrong size byte *and* too short) either error is accepted.
fn judge_err(kind: u8, size: Option<u8>, remaining: usize, e: &RErr) -> Result<(), (&'static str, String)> {
    let known_with_len = fixed_len(kind).is_some() || kind == 5;
    match e {
        RErr::UnknownId(id) => {
            if known_with_len || kind == 0 || kind == 1 {
                return Err(("variant:UnknownId-for-known-kind", format!("UnknownId({}) for known kind {}", id, kind)));
            }
            if *id != kind {
                return Err(("field:UnknownId.id", format!("UnknownId({}) but the kind byte is {}", id, kind)));
            }
            Ok(())
        }
        RErr::UnexpectedSize { option_id, size: s } => {
            if !known_with_len {
                return Err(("variant:UnexpectedSize-for-unknown-kind", format!("{:?} for kind {}", e, kind)));
            }
            let real = match size {
                Some(x) => x,
                None => return Err(("variant:UnexpectedSize-without-size-byte", format!("{:?} but only {} byte remains, there is no size byte", e, remaining))),
            };
            let valid = match fixed_len(kind) {
                Some(l) => real as usize == l,
                None => sack_len_valid(real),
            };
            if valid {
                return Err(("variant:UnexpectedSize-for-valid-size", format!("{:?} but size byte {} is valid for kind {}", e, real, kind)));
            }
            if *option_id != kind {
                return Err(("field:UnexpectedSize.option_id", format!("{:?} but the kind byte is {}", e, kind)));
            }
            if *s != real {
                return Err(("field:UnexpectedSize.size", format!("{:?} but the size byte is {}", e, real)));
            }
            Ok(())
        }
        RErr::UnexpectedEndOfSlice { option_id, expected_len, actual_len } => {
            if !known_with_len {
                return Err(("variant:UnexpectedEndOfSlice-for-unknown-kind", format!("{:?} for kind {}", e, kind)));
            }
            if *option_id != kind {
                return Err(("field:UnexpectedEndOfSlice.option_id", format!("{:?} but the kind byte is {}", e, kind)));
            }
            if *actual_len != remaining {
                return Err(("field:UnexpectedEndOfSlice.actual_len", format!("{:?} but {} bytes remain", e, remaining)));
            }
            // lengths the option can truthfully be said to need
            let mut allowed: Vec<usize> = vec![];
            if remaining < 2 {
                allowed.push(2);
            }
            match fixed_len(kind) {
                Some(l) => allowed.push(l),
                None => {
                    allowed.push(10);
                    if let Some(s) = size {
                        if sack_len_valid(s) {
                            allowed.push(s as usize);
                        }
                    }
                }
            }
            let x = *expected_len as usize;
            if !allowed.contains(&x) {
                return Err(("field:UnexpectedEndOfSlice.expected_len", format!("{:?}: expected_len {} is not a length this option needs (kind {}, size byte {:?}; candidates {:?})", e, x, kind, size, allowed)));
            }
            if x <= remaining {
                return Err(("variant:UnexpectedEndOfSlice-although-enough-bytes", format!("{:?} but {} bytes remain", e, remaining)));
            }
            Ok(())
        }
    }
}

// ------------------------------------------------------------------------------------------
// per-case accumulators

const REACH: &[&str] = &[
    "dec-err:UnexpectedEndOfSlice", // 0
    "dec-err:UnexpectedSize",       // 1
    "dec-err:UnknownId",            // 2
    "dec-end",                      // 3
    "dec-full-tile",                // 4
    "end-then-garbage",             // 5
    "dec-sack-3-blocks",            // 6
    "dec-size-byte-missing",        // 7
    "dec-40-bytes-tiled",           // 8
    "hdr-slice-path",               // 9
    "enc-ok",                       // 10
    "enc-rejected",                 // 11
    "limit-40-exact",               // 12
    "limit-41-rejected",            // 13
    "limit-44-rejected",            // 14
    "enc-pad-1",                    // 15
    "enc-pad-2",                    // 16
    "enc-pad-3",                    // 17
    "sack-3-blocks",                // 18
    "sack-gapped",                  // 19
    "raw-41-rejected",              // 20
    "limit-38-ok",                  // 21
    "limit-39-ok",                  // 22
    "dec-two-faults",               // 23
];

#[derive(Default)]
struct Acc {
    states: u64,
    evals: u64,
    nontrivial: u64,
    reach: u32,
    stops: u8,
    max_yield: usize,
    sigs: Vec<String>,
}
impl Acc {
    fn r(&mut self, i: usize) {
        self.reach |= 1 << i;
    }
    /// report each signature once per case (the first offending input of the batch)
    fn fail(&mut self, case: &mut Case, sig: String, detail: impl FnOnce() -> String) {
        if self.sigs.iter().any(|s| *s == sig) {
            return;
        }
        self.sigs.push(sig.clone());
        case.fail(sig, detail());
    }
    fn flush(&mut self, case: &mut Case, what: &str) {
        case.states(self.states);
        case.evals(self.evals);
        case.nontrivial_n(self.nontrivial);
        for (i, k) in REACH.iter().enumerate() {
            if self.reach & (1 << i) != 0 {
                case.reach(*k);
            }
        }
        let mut s = String::new();
        for (i, n) in ["done", "end", "eos", "size", "unknown", "viol"].iter().enumerate() {
            if self.stops & (1 << i) != 0 {
                if !s.is_empty() {
                    s.push('+');
                }
                s.push_str(n);
            }
        }
        case.outcome(format!("{}:stops={}:maxyield={}", what, s, self.max_yield));
    }
}

// ------------------------------------------------------------------------------------------
// iterator against the reference tokenizer

/// Drive `it`, which must iterate exactly `area`, and compare every step with the reference.
/// The elements the crate yielded are appended to `yields`.
fn check_iter(api: &'static str, area: &[u8], mut it: TcpOptionsIterator<'_>, yields: &mut Vec<R>, acc: &mut Acc, case: &mut Case) {
    case.at(api);
    match mem::rel(area, it.rest()) {
        Ok((0, l)) if l == area.len() => {}
        other => acc.fail(case, format!("{}:rest-before-first-next", api), || format!("area {}: fresh iterator rest() is {:?}, expected the whole area", hex(area), other)),
    }
    let mut pos = 0usize;
    let mut n_yield = 0usize;
    let mut steps = 0usize;
    // the crate and the reference disagree on whether iteration goes on: nothing more can be compared
    let mut diverged = false;
    loop {
        steps += 1;
        if steps > area.len() + 2 {
            acc.fail(case, format!("{}:yield-count-exceeds-bytes", api), || format!("area {}: more than {} items", hex(area), area.len()));
            acc.stops |= 32;
            diverged = true;
            break;
        }
        let step = ref_step(area, pos);
        let got = it.next();
        acc.evals += 1;
        match (step, got) {
            (Step::Done, None) => {
                acc.stops |= 1;
                if pos > 0 {
                    acc.r(4);
                    if pos == 40 {
                        acc.r(8);
                    }
                }
                break;
            }
            (Step::End, None) => {
                acc.stops |= 2;
                acc.r(3);
                if area[pos..].iter().any(|b| *b != 0) {
                    acc.r(5);
                }
                break;
            }
            (Step::Done, Some(x)) | (Step::End, Some(x)) => {
                acc.stops |= 32;
                diverged = true;
                acc.fail(case, format!("{}:item-after-end", api), || format!("area {} pos {}: the option list ends here (no byte left or END), next() returned {:?}", hex(area), pos, x));
                break;
            }
            (Step::Elem(e, n), Some(Ok(g))) => {
                let gr = R::from_crate(&g);
                if gr != e {
                    acc.fail(case, format!("{}:element-value:{}", api, e.kind_name()), || format!("area {} pos {}: bytes say {:?}, next() returned {:?}", hex(area), pos, e, g));
                }
                match mem::rel(area, it.rest()) {
                    Ok((o, l)) if o == pos + n && l == area.len() - pos - n => {}
                    other => {
                        acc.fail(case, format!("{}:tiling:{}", api, e.kind_name()), || format!("area {} pos {}: option occupies {} bytes so rest() must be [{}..{}], got (offset,len) {:?}", hex(area), pos, n, pos + n, area.len(), other));
                        acc.stops |= 32;
                        diverged = true;
                        break;
                    }
                }
                if e.extra_blocks() == 3 {
                    acc.r(6);
                }
                yields.push(gr);
                pos += n;
                n_yield += 1;
            }
            (Step::Elem(e, _), other) => {
                acc.stops |= 32;
                diverged = true;
                acc.fail(case, format!("{}:valid-option-not-yielded:{}", api, e.kind_name()), || format!("area {} pos {}: well-formed {:?}, next() returned {:?}", hex(area), pos, e, other));
                break;
            }
            (Step::Bad { kind, size, remaining }, Some(Err(e))) => {
                match &e {
                    RErr::UnexpectedEndOfSlice { .. } => {
                        acc.stops |= 4;
                        acc.r(0);
                    }
                    RErr::UnexpectedSize { .. } => {
                        acc.stops |= 8;
                        acc.r(1);
                    }
                    RErr::UnknownId(_) => {
                        acc.stops |= 16;
                        acc.r(2);
                    }
                }
                if size.is_none() && (fixed_len(kind).is_some() || kind == 5) {
                    acc.r(7);
                }
                if let (Some(s), Some(l)) = (size, fixed_len(kind)) {
                    if s as usize != l && remaining < l {
                        acc.r(23);
                    }
                }
                if let Err((what, why)) = judge_err(kind, size, remaining, &e) {
                    acc.fail(case, format!("{}:error-{}", api, what), || format!("area {} pos {} (kind byte {}, size byte {:?}, {} bytes remaining): {}", hex(area), pos, kind, size, remaining, why));
                }
                break;
            }
            (Step::Bad { kind, size, remaining }, other) => {
                acc.stops |= 32;
                diverged = true;
                let what = if other.is_none() { "malformed-option-ends-silently" } else { "malformed-option-accepted" };
                acc.fail(case, format!("{}:{}", api, what), || format!("area {} pos {}: kind byte {}, size byte {:?}, {} bytes remaining is malformed/unknown, next() returned {:?}", hex(area), pos, kind, size, remaining, other));
                break;
            }
        }
    }
    if n_yield > acc.max_yield {
        acc.max_yield = n_yield;
    }
    if diverged {
        return;
    }
    // stays exhausted
    match mem::rel(area, it.rest()) {
        Ok((_, 0)) => {}
        other => acc.fail(case, format!("{}:not-exhausted-after-stop:rest", api), || format!("area {}: iteration stopped at pos {} but rest() is (offset,len) {:?}, expected empty", hex(area), pos, other)),
    }
    for k in 0..2 {
        let x = it.next();
        acc.evals += 1;
        if x.is_some() {
            acc.fail(case, format!("{}:not-exhausted-after-stop:next", api), || format!("area {}: iteration stopped at pos {}, next() call #{} after that returned {:?}", hex(area), pos, k + 1, x));
            break;
        }
    }
    if !it.rest().is_empty() {
        acc.fail(case, format!("{}:not-exhausted-after-stop:rest", api), || format!("area {}: rest() non-empty after repeated next()", hex(area)));
    }
}

struct Mem {
    a: Arena,
    b: Arena,
    yields: Vec<R>,
    yields2: Vec<R>,
    hdr: Vec<u8>,
    scratch: Vec<u8>,
}
impl Mem {
    fn new() -> Mem {
        Mem { a: Arena::new(1), b: Arena::new(1), yields: vec![], yields2: vec![], hdr: vec![], scratch: vec![] }
    }
}

/// 20 byte TCP header with the given data offset, followed by the option bytes
fn wire_header(out: &mut Vec<u8>, opts: &[u8]) {
    out.clear();
    out.extend_from_slice(&[0x12, 0x34, 0x56, 0x78, 1, 2, 3, 4, 5, 6, 7, 8, ((5 + opts.len() / 4) as u8) << 4, 0x10, 0xff, 0xff, 0, 0, 0, 0]);
    out.extend_from_slice(opts);
}

/// one raw option area through every decoding entry point
fn check_area(src: &[u8], m: &mut Mem, acc: &mut Acc, case: &mut Case) {
    let l = src.len();
    acc.states += 1;
    if l > 0 && src[0] != 0 {
        acc.nontrivial += 1;
    }
    let area = m.a.place_end(src);
    m.yields.clear();
    check_iter("TcpOptionsIterator::from_slice", area, TcpOptionsIterator::from_slice(area), &mut m.yields, acc, case);

    // the same bytes stored in a TcpOptions (zero padded to a multiple of 4)
    case.at("TcpOptions::try_from_slice");
    acc.evals += 1;
    match guarded(|| TcpOptions::try_from_slice(area)) {
        Err(p) => acc.fail(case, "TcpOptions::try_from_slice:panic".into(), || format!("area {}: {}", hex(src), p)),
        Ok(Err(e)) => acc.fail(case, "TcpOptions::try_from_slice:rejects-fitting-area".into(), || format!("area {} ({} bytes): {:?}", hex(src), l, e)),
        Ok(Ok(o)) => {
            let want = (l + 3) / 4 * 4;
            let s = o.as_slice();
            if s.len() != want || o.len() != want || s[..l.min(s.len())] != src[..l.min(s.len())] || s[l.min(s.len())..].iter().any(|b| *b != 0) {
                acc.fail(case, "TcpOptions::try_from_slice:stored-bytes".into(), || format!("area {} ({} bytes) stored as {} (len {}), expected the bytes zero-padded to {}", hex(src), l, hex(s), o.len(), want));
            } else {
                if o.data_offset() as usize != 5 + want / 4 {
                    acc.fail(case, "TcpOptions::data_offset".into(), || format!("area of {} bytes: data_offset() {} expected {}", l, o.data_offset(), 5 + want / 4));
                }
                m.yields2.clear();
                check_iter("TcpOptions::elements_iter", s, o.elements_iter(), &mut m.yields2, acc, case);
            }
        }
    }

    if l % 4 == 0 {
        acc.r(9);
        case.at("TcpHeader::set_options_raw");
        let mut h = TcpHeader::new(1, 2, 3, 4);
        acc.evals += 1;
        match guarded(|| h.set_options_raw(area).map(|_| h)) {
            Ok(Ok(h)) => {
                if h.options.as_slice() != src || h.data_offset() as usize != 5 + l / 4 || h.header_len() != 20 + l {
                    acc.fail(case, "TcpHeader::set_options_raw:state".into(), || format!("area {}: options {} data_offset {} header_len {}", hex(src), hex(h.options.as_slice()), h.data_offset(), h.header_len()));
                }
            }
            other => acc.fail(case, "TcpHeader::set_options_raw:rejects-fitting-area".into(), || format!("area {}: {:?}", hex(src), other.map(|r| r.map(|_| ())))),
        }
        wire_header(&mut m.hdr, src);
        let w = m.b.place_end(&m.hdr);
        case.at("TcpHeaderSlice::from_slice");
        acc.evals += 2;
        match TcpHeaderSlice::from_slice(w) {
            Ok(s) => {
                m.yields2.clear();
                check_iter("TcpHeaderSlice::options_iterator", &w[20..], s.options_iterator(), &mut m.yields2, acc, case);
            }
            Err(e) => acc.fail(case, "TcpHeaderSlice::from_slice:rejects".into(), || format!("header {}: {:?}", hex(w), e)),
        }
        case.at("TcpSlice::from_slice");
        match TcpSlice::from_slice(w) {
            Ok(s) => {
                m.yields2.clear();
                check_iter("TcpSlice::options_iterator", &w[20..], s.options_iterator(), &mut m.yields2, acc, case);
            }
            Err(e) => acc.fail(case, "TcpSlice::from_slice:rejects".into(), || format!("header {}: {:?}", hex(w), e)),
        }
    }
}

// ------------------------------------------------------------------------------------------
// token table (bytes -> elements)

struct Tok {
    b: Vec<u8>,
    /// trunc_ok[p]: cutting this token to its first p bytes gives a partial that no earlier token gives
    trunc_ok: Vec<bool>,
}

const BLK0: [u8; 8] = [0x01, 0x02, 0x03, 0x04, 0xa5, 0xb6, 0xc7, 0xd8];
fn blk(i: usize) -> [u8; 8] {
    let mut b = BLK0;
    for x in b.iter_mut() {
        *x = x.wrapping_add(0x10 * i as u8);
    }
    b
}

fn build_tokens() -> Vec<Tok> {
    let mut t: Vec<Vec<u8>> = vec![vec![0], vec![1]];
    // MSS
    for v in [[0u8, 0], [0xff, 0xff], [0x12, 0x34], [0x02, 0x04]] {
        t.push(vec![2, 4, v[0], v[1]]);
    }
    for l in [3u8, 5, 0, 1, 2, 6, 8, 10, 255] {
        t.push(vec![2, l, 0x12, 0x34]);
    }
    // window scale
    for v in [0u8, 0xff, 0x5a] {
        t.push(vec![3, 3, v]);
    }
    for l in [2u8, 4, 0, 1, 5, 8, 10, 255] {
        t.push(vec![3, l, 0x5a]);
    }
    // SACK permitted
    for l in [2u8, 1, 3, 0, 4, 5, 8, 10, 255] {
        t.push(vec![4, l]);
    }
    // timestamp
    for body in [[0u8; 8], [0xff; 8], BLK0] {
        let mut x = vec![8, 10];
        x.extend_from_slice(&body);
        t.push(x);
    }
    for l in [9u8, 11, 0, 1, 2, 3, 4, 8, 12, 18, 255] {
        let mut x = vec![8, l];
        x.extend_from_slice(&BLK0);
        t.push(x);
    }
    // SACK: valid lengths
    for (l, pats) in [(10u8, &[0u8, 1, 2][..]), (18, &[2, 1][..]), (26, &[2][..]), (34, &[2, 0][..])] {
        for p in pats {
            let mut x = vec![5, l];
            for i in 0..((l as usize - 2) / 8) {
                match p {
                    0 => x.extend_from_slice(&[0; 8]),
                    1 => x.extend_from_slice(&[0xff; 8]),
                    _ => x.extend_from_slice(&blk(i)),
                }
            }
            t.push(x);
        }
    }
    // SACK: lying lengths (one block of body)
    for l in [9u8, 11, 17, 19, 25, 27, 33, 35, 0, 1, 2, 255, 8, 12, 42, 3, 4, 36, 40] {
        let mut x = vec![5, l];
        x.extend_from_slice(&BLK0);
        t.push(x);
    }
    // unknown kinds
    for k in [6u8, 7, 9, 254, 255] {
        for l in [0u8, 1, 2, 255] {
            if !(k == 255 && l == 255) {
                t.push(vec![k, l]);
            }
        }
        t.push(vec![k, 4, 0, 0]);
    }
    // the token code must be prefix free (distinct sequences then spell distinct byte strings)
    for i in 0..t.len() {
        for j in 0..t.len() {
            if i != j {
                assert!(!(t[j].len() >= t[i].len() && t[j][..t[i].len()] == t[i][..]), "token {} is a prefix of token {}", i, j);
            }
        }
    }
    let mut out = vec![];
    for i in 0..t.len() {
        let mut ok = vec![false; t[i].len()];
        for p in 1..t[i].len() {
            let first = !(0..i).any(|j| t[j].len() > p && t[j][..p] == t[i][..p]);
            let all_ff = t[i][..p].iter().all(|b| *b == 0xff);
            ok[p] = first && !all_ff;
        }
        out.push(Tok { b: t[i].clone(), trunc_ok: ok });
    }
    out
}

const PADS: [u8; 3] = [0x00, 0x01, 0xff];

/// every area of the family of one token sequence: cuts inside the last token, the exact
/// concatenation, and the concatenation padded with each pad byte to every length up to 40.
/// `f` is called with each area; all areas over all sequences are pairwise distinct.
fn seq_areas(toks: &[Tok], seq: &[usize], buf: &mut Vec<u8>, mut f: impl FnMut(&[u8])) {
    buf.clear();
    for i in seq {
        buf.extend_from_slice(&toks[*i].b);
    }
    let n = buf.len();
    let (last_len, last_is) = match seq.last() {
        Some(i) => (toks[*i].b.len(), Some(*i)),
        None => (0, None),
    };
    let p0 = n - last_len;
    if seq.len() > 0 && p0 >= 40 {
        return;
    }
    if let Some(li) = last_is {
        for p in 1..last_len {
            if toks[li].trunc_ok[p] && p0 + p <= 40 {
                f(&buf[..p0 + p]);
            }
        }
    }
    let last_pad: Option<u8> = match last_is {
        Some(li) if toks[li].b.len() == 1 && toks[li].b[0] <= 1 => Some(toks[li].b[0]),
        _ => None,
    };
    if n <= 40 && last_pad.is_none() {
        f(&buf[..n]);
    }
    if n < 40 {
        for pad in PADS {
            if last_pad == Some(pad) {
                continue;
            }
            buf.truncate(n);
            for _l in n + 1..=40 {
                buf.push(pad);
                f(&buf[..]);
            }
        }
        buf.truncate(n);
    }
}

// ------------------------------------------------------------------------------------------
// element alphabet (elements -> bytes)

fn alphabet() -> Vec<R> {
    let mut a = vec![R::Noop, R::Mss(0), R::Mss(0xffff), R::Mss(0x1234), R::Ws(0), R::Ws(0xff), R::Ws(0x5a), R::SackPerm, R::Ts(0, 0), R::Ts(u32::MAX, u32::MAX), R::Ts(0x0102_0304, 0xa5b6_c7d8)];
    let b = |i: u32| -> Blk { (0x1112_1314 + 0x1010_1010 * i, 0x1516_1718 + 0x1010_1010 * i) };
    // every slot layout with distinct block values
    for mask in 0..8u32 {
        let mut r = [None; 3];
        for s in 0..3 {
            if mask & (1 << s) != 0 {
                r[s] = Some(b(s as u32 + 1));
            }
        }
        a.push(R::Sack(b(0), r));
    }
    // canonical layouts with all-zero / all-one values
    for v in [0u32, u32::MAX] {
        for n in 0..4 {
            let mut r = [None; 3];
            for s in 0..n {
                r[s] = Some((v, v));
            }
            a.push(R::Sack((v, v), r));
        }
    }
    a
}

fn describe_list(refs: &[R]) -> String {
    format!("{:?}", refs)
}

/// one element list through every encoding entry point
fn check_list(els: &[El], refs: &[R], m: &mut Mem, acc: &mut Acc, case: &mut Case) {
    acc.states += 1;
    if !els.is_empty() {
        acc.nontrivial += 1;
    }
    let req: usize = refs.iter().map(|r| r.wire_len()).sum();
    let any_gapped = refs.iter().any(|r| r.gapped());
    case.at("TcpOptions::try_from_elements");
    acc.evals += 2;
    let r1 = guarded(|| TcpOptions::try_from_elements(els));
    let mut h = TcpHeader::new(1, 2, 3, 4);
    case.at("TcpHeader::set_options");
    let r2 = guarded(|| h.set_options(els));
    // never a panic, and both entry points agree
    let r1 = match r1 {
        Ok(x) => x,
        Err(p) => {
            acc.fail(case, "encode:panic:TcpOptions::try_from_elements".into(), || format!("list {} (needs {} bytes): {}", describe_list(refs), req, p));
            return;
        }
    };
    let r2 = match r2 {
        Ok(x) => x,
        Err(p) => {
            acc.fail(case, "encode:panic:TcpHeader::set_options".into(), || format!("list {} (needs {} bytes): {}", describe_list(refs), req, p));
            return;
        }
    };
    if req > 40 {
        acc.r(11);
        if req == 41 {
            acc.r(13);
        }
        if req == 44 {
            acc.r(14);
        }
        for (api, e) in [("TcpOptions::try_from_elements", r1.as_ref().err()), ("TcpHeader::set_options", r2.as_ref().err())] {
            match e {
                None => acc.fail(case, format!("encode:oversize-list-accepted:{}", api), || format!("list {} needs {} bytes, {} returned Ok", describe_list(refs), req, api)),
                Some(TcpOptionWriteError::NotEnoughSpace(n)) => {
                    if *n != req {
                        acc.fail(case, format!("encode:rejected-with-wrong-required-size:{}", api), || format!("list {} needs {} bytes, {} returned NotEnoughSpace({})", describe_list(refs), req, api, n));
                    }
                }
            }
        }
        return;
    }
    let o = match r1 {
        Ok(o) => o,
        Err(e) => {
            acc.fail(case, "encode:fitting-list-rejected:TcpOptions::try_from_elements".into(), || format!("list {} needs {} bytes: {:?}", describe_list(refs), req, e));
            return;
        }
    };
    acc.r(10);
    let want = (req + 3) / 4 * 4;
    match req {
        40 => acc.r(12),
        38 => acc.r(21),
        39 => acc.r(22),
        _ => {}
    }
    match want - req {
        1 => acc.r(15),
        2 => acc.r(16),
        3 => acc.r(17),
        _ => {}
    }
    if any_gapped {
        acc.r(19);
    }
    let bytes = o.as_slice();
    if o.len() != want || bytes.len() != want || o.len_u8() as usize != want || o.is_empty() != (want == 0) {
        acc.fail(case, "encode:len-not-required-rounded-up-to-4".into(), || format!("list {} needs {} bytes: len() {} as_slice().len() {} len_u8() {} is_empty() {}, expected {}", describe_list(refs), req, o.len(), bytes.len(), o.len_u8(), o.is_empty(), want));
        return;
    }
    if o.data_offset() as usize != 5 + want / 4 {
        acc.fail(case, "encode:data_offset:TcpOptions".into(), || format!("list {}: len {} data_offset() {}", describe_list(refs), want, o.data_offset()));
    }
    if bytes[req..].iter().any(|b| *b != 0) {
        acc.fail(case, "encode:padding-not-END".into(), || format!("list {} needs {} bytes, encoded {}: bytes after {} must be END(0)", describe_list(refs), req, hex(bytes), req));
    }
    {
        // `encode` skips empty slots, i.e. it writes the RFC wire form of the compaction
        m.scratch.clear();
        for r in refs {
            r.encode(&mut m.scratch);
        }
        if bytes[..req] != m.scratch[..] {
            acc.fail(case, "encode:wire-bytes".into(), || format!("list {}: encoded {} but the RFC wire form is {}", describe_list(refs), hex(bytes), hex(&m.scratch)));
        }
    }
    // iterate the result
    m.yields.clear();
    check_iter("TcpOptions::elements_iter", bytes, o.elements_iter(), &mut m.yields, acc, case);
    if m.yields.len() != refs.len() {
        acc.fail(case, "encode-roundtrip:element-count".into(), || format!("list {} encoded {}: iteration yielded {:?}", describe_list(refs), hex(bytes), m.yields));
    } else {
        for i in 0..refs.len() {
            if m.yields[i] != refs[i] {
                if m.yields[i] == refs[i].canonical() {
                    // gapped slot layout came back compacted: same option on the wire (see module doc)
                    case.reach("sack-gapped-compacted");
                } else {
                    acc.fail(case, format!("encode-roundtrip:element-differs:{}", refs[i].kind_name()), || format!("list {} encoded {}: element #{} went in as {:?} and came back as {:?}", describe_list(refs), hex(bytes), i, refs[i], m.yields[i]));
                }
            } else if refs[i].extra_blocks() == 3 {
                acc.r(18);
            }
        }
    }
    // TryFrom<&[TcpOptionElement]>
    case.at("TcpOptions::try_from");
    acc.evals += 1;
    match guarded(|| TcpOptions::try_from(els)) {
        Ok(Ok(o2)) if o2.as_slice() == bytes => {}
        other => acc.fail(case, "encode:TryFrom-differs".into(), || format!("list {}: try_from gave {:?}", describe_list(refs), other.map(|r| r.map(|o| hex(o.as_slice()))))),
    }
    // header
    if let Err(e) = r2 {
        acc.fail(case, "encode:fitting-list-rejected:TcpHeader::set_options".into(), || format!("list {} needs {} bytes: {:?}", describe_list(refs), req, e));
        return;
    }
    if h.options.as_slice() != bytes {
        acc.fail(case, "encode:TcpHeader::set_options-differs".into(), || format!("list {}: header options {} vs {}", describe_list(refs), hex(h.options.as_slice()), hex(bytes)));
    }
    if h.data_offset() as usize != 5 + want / 4 || h.header_len() != 20 + want || h.header_len_u16() as usize != 20 + want {
        acc.fail(case, "encode:data_offset:TcpHeader".into(), || format!("list {}: options len {} data_offset() {} header_len() {} header_len_u16() {}", describe_list(refs), want, h.data_offset(), h.header_len(), h.header_len_u16()));
    }
    case.at("TcpHeader::to_bytes");
    acc.evals += 2;
    let hb = h.to_bytes();
    if hb.len() != 20 + want || (hb[12] >> 4) as usize != 5 + want / 4 || hb[20..] != bytes[..] {
        acc.fail(case, "encode:TcpHeader::to_bytes".into(), || format!("list {}: serialised header {}", describe_list(refs), hex(&hb)));
        return;
    }
    let w = m.b.place_end(&hb);
    case.at("TcpHeaderSlice::from_slice");
    match TcpHeaderSlice::from_slice(w) {
        Ok(s) => {
            m.yields2.clear();
            check_iter("TcpHeaderSlice::options_iterator", &w[20..], s.options_iterator(), &mut m.yields2, acc, case);
            if m.yields2 != m.yields {
                acc.fail(case, "encode-roundtrip:header-slice-differs".into(), || format!("list {}: {:?} vs {:?}", describe_list(refs), m.yields2, m.yields));
            }
        }
        Err(e) => acc.fail(case, "TcpHeaderSlice::from_slice:rejects".into(), || format!("header {}: {:?}", hex(w), e)),
    }
}

fn dfs_lists(alpha: &[(R, El)], els: &mut Vec<El>, refs: &mut Vec<R>, left: usize, m: &mut Mem, acc: &mut Acc, case: &mut Case) {
    check_list(els, refs, m, acc, case);
    if left == 0 {
        return;
    }
    for (r, e) in alpha {
        els.push(e.clone());
        refs.push(*r);
        dfs_lists(alpha, els, refs, left - 1, m, acc, case);
        els.pop();
        refs.pop();
    }
}

/// size classes for the lists around the 40 byte limit: (wire length, element for the k-th use)
fn limit_class(c: usize, k: u32) -> R {
    let b = |i: u32| -> Blk { (0x0101_0101u32.wrapping_mul(k + 1).wrapping_add(i << 28), 0xf0e0_d0c0u32.wrapping_sub(k).wrapping_add(i)) };
    match c {
        0 => R::Noop,
        1 => R::SackPerm,
        2 => R::Ws(k as u8 + 1),
        3 => R::Mss(0x0100 + k as u16),
        4 => R::Ts(0x0102_0304 + k, 0xfffe_fdfc - k),
        5 => R::Sack(b(0), [None, None, None]),
        6 => R::Sack(b(0), [Some(b(1)), None, None]),
        7 => R::Sack(b(0), [None, None, Some(b(3))]),
        8 => R::Sack(b(0), [Some(b(1)), Some(b(2)), None]),
        9 => R::Sack(b(0), [Some(b(1)), None, Some(b(3))]),
        _ => R::Sack(b(0), [Some(b(1)), Some(b(2)), Some(b(3))]),
    }
}
const LIMIT_SIZES: [usize; 11] = [1, 2, 3, 4, 10, 10, 18, 18, 26, 26, 34];

/// all multisets over the size classes with total wire length `total`
fn compositions(total: usize, from: usize, cur: &mut Vec<usize>, out: &mut Vec<Vec<usize>>) {
    if total == 0 {
        out.push(cur.clone());
        return;
    }
    for c in from..LIMIT_SIZES.len() {
        if LIMIT_SIZES[c] <= total {
            cur.push(c);
            compositions(total - LIMIT_SIZES[c], c, cur, out);
            cur.pop();
        }
    }
}

// ------------------------------------------------------------------------------------------

const SYMS: [u8; 9] = [0, 1, 2, 3, 4, 5, 8, 10, 255];

impl C13 {
    fn list_depth(tier: Tier) -> usize {
        if tier.is_thorough() {
            6
        } else {
            5
        }
    }
    fn tok_depth(tier: Tier) -> usize {
        if tier.is_thorough() {
            4
        } else {
            3
        }
    }
    fn str_len(tier: Tier) -> usize {
        if tier.is_thorough() {
            9
        } else {
            6
        }
    }
}

const U_ENC_MISC: u64 = 0;
const U_DEC_MISC: u64 = 1;
const U_STR: u64 = 2; // 81 units: byte strings by their first two symbols
const U_SWEEP: u64 = U_STR + 81; // 16 units: every (kind byte, size byte) pair, by the high nibble of the kind
const U_ENC: u64 = U_SWEEP + 16;

impl Check for C13 {
    fn id(&self) -> &'static str {
        "C13"
    }
    fn rule(&self, tier: Tier) -> String {
        let a = alphabet().len();
        let t = build_tokens().len();
        format!(
            "alphabet/bounds: (a) elements->bytes: every list of <= {d} elements over {a} element values (Noop; MaximumSegmentSize 0/0xffff/0x1234; WindowScale 0/0xff/0x5a; SelectiveAcknowledgementPermitted; Timestamp zero/max/mixed; SelectiveAcknowledgement in all 8 slot layouts (canonical and gapped) with distinct block values and the 4 canonical layouts with all-zero and all-one values), \
             plus every multiset of size classes (1,2,3,4,10(TS),10,18,18g,26,26g,34; g = gapped SACK) with total wire length 38..=44 in ascending, descending and interleaved order, plus raw areas of 0..=44, 64, 255, 256, 1000 bytes; APIs TcpOptions::try_from_elements / TryFrom, TcpHeader::set_options, set_options_raw, TcpOptions::try_from_slice, elements_iter, TcpHeader::to_bytes -> TcpHeaderSlice::options_iterator. \
             (b) bytes->elements: every sequence of <= {k} tokens out of {t} (END; NOP; MSS with length byte 4 (4 bodies) and 0,1,2,3,5,6,8,10,255; window scale with 3 (3 bodies) and 0,1,2,4,5,8,10,255; SACK-permitted with 2 and 0,1,3,4,5,8,10,255; timestamp with 10 (3 bodies) and 0,1,2,3,4,8,9,11,12,18,255; SACK with 10/18/26/34 (1-3 bodies) and 0,1,2,3,4,8,9,11,12,17,19,25,27,33,35,36,40,42,255; unknown kinds 6,7,9,254,255 with length byte 0,1,2,4,255), each cut at every byte inside its last token, taken exactly, and padded with 0x00 / 0x01 / 0xff to every total length <= 40 \
             (a cut token followed by further tokens is byte-identical to a full token with another body, so cuts apply to the last token only); plus all byte strings of length <= {s} over {{0,1,2,3,4,5,8,10,255}}; plus the complete kind x size sweep: <prefix> <kind 0..=255> <size 0..=255> <body> for the prefixes none / NOP / MSS cut to every total length <= 40. Each area is placed flush against a PROT_NONE page and fed to TcpOptionsIterator::from_slice, TcpOptions::try_from_slice+elements_iter, and (length multiple of 4) TcpHeader::set_options_raw, TcpHeaderSlice::options_iterator, TcpSlice::options_iterator. \
             oracle: reference tokenizer from RFC 9293/7323/2018: after every next() rest() must be exactly the area minus the bytes of the options yielded so far (no gap, no overlap), values = big-endian extraction, END or the end of the area ends iteration with None, the first malformed/unknown option gives an error whose option_id is the kind byte, size the size byte, actual_len the number of remaining bytes and expected_len a length the option really needs (> remaining), of a variant that applies; afterwards rest() is empty and two more next() give None; yields <= bytes. \
             encode: Ok iff the summed wire lengths <= 40, else NotEnoughSpace(sum), never a panic; len = sum rounded up to 4, bytes = RFC wire form, padding END(0) only, data_offset = 5+len/4, header_len = 20+len, iterating yields exactly the input elements. \
             distinct: lists are distinct by construction; token areas are distinct by construction (prefix-free token code, cuts only for the first token with that partial, no 0x00/0x01 padding or exact area after a final END/NOP token); the byte strings of <= {s} bytes and the kind x size sweep are separate families (each without internal repetition) that overlap the token family. non-trivial: non-empty list / area that is non-empty and does not start with END.",
            d = Self::list_depth(tier),
            a = a,
            k = Self::tok_depth(tier),
            t = t,
            s = Self::str_len(tier)
        )
    }
    fn assumptions(&self, _tier: Tier) -> Vec<String> {
        vec![
            "option formats transcribed from RFC 9293 §3.1 (END, NOP, MSS), RFC 7323 (window scale, timestamps) and RFC 2018 (SACK-permitted, SACK with 1-4 blocks)".into(),
            "where a malformed option is broken in two ways (wrong size byte and too few bytes) either truthful error is accepted".into(),
            "element values are limited to 2-4 patterns per field (0, all ones, mixed); the iterator and encoder do not branch on values".into(),
        ]
    }
    fn units(&self, tier: Tier) -> u64 {
        let a = alphabet().len() as u64;
        let t = build_tokens().len() as u64;
        let _ = tier;
        U_ENC + a * a + t * t
    }
    fn expect_reach(&self, _tier: Tier) -> Vec<String> {
        REACH.iter().map(|s| s.to_string()).collect()
    }
    fn coverage_extra(&self, tier: Tier) -> Vec<(String, String)> {
        vec![
            ("bound_list_elements".into(), Self::list_depth(tier).to_string()),
            ("bound_tokens".into(), Self::tok_depth(tier).to_string()),
            ("bound_byte_string_len".into(), Self::str_len(tier).to_string()),
            ("element_alphabet".into(), alphabet().len().to_string()),
            ("token_alphabet".into(), build_tokens().len().to_string()),
        ]
    }
    fn run_unit(&self, tier: Tier, u: u64, ctx: &mut Ctx) {
        let alpha: Vec<(R, El)> = alphabet().into_iter().map(|r| (r, r.to_crate())).collect();
        let a = alpha.len() as u64;
        let mut m = Mem::new();
        if u == U_ENC_MISC {
            run_enc_misc(ctx, &mut m);
            return;
        }
        let toks = build_tokens();
        if u == U_DEC_MISC {
            // the empty token sequence: the empty area and pure padding
            ctx.case(
                None,
                || CaseDesc { shape: "dec:pure-padding".into(), text: "areas 0x00^k, 0x01^k, 0xff^k for k in 0..=40 and the one byte strings over {0,1,2,3,4,5,8,10,255}".into(), rank: 0 },
                |case| {
                    let mut acc = Acc::default();
                    let mut buf = vec![];
                    seq_areas(&toks, &[], &mut buf, |area| check_area(area, &mut m, &mut acc, case));
                    // byte strings of length 1
                    for b in SYMS {
                        check_area(&[b], &mut m, &mut acc, case);
                    }
                    acc.flush(case, "dec:pure-padding");
                },
            );
            return;
        }
        if u < U_SWEEP {
            // byte strings starting with two given symbols
            let s0 = SYMS[((u - U_STR) / 9) as usize];
            let s1 = SYMS[((u - U_STR) % 9) as usize];
            let maxlen = Self::str_len(tier);
            for len in 2..=maxlen {
                // one case per (length, third symbol) for lengths > 5
                let split = if len > 5 { 9 } else { 1 };
                for part in 0..split {
                    let m = &mut m;
                    ctx.case(
                        None,
                        || CaseDesc { shape: "dec:byte-strings".into(), text: format!("all byte strings of length {} over {:?} starting with {:#04x} {:#04x} (part {}/{})", len, SYMS, s0, s1, part, split), rank: len as u64 },
                        |case| {
                            let mut acc = Acc::default();
                            let mut s = vec![s0; len];
                            s[1] = s1;
                            let free = len - 2;
                            let total = 9u64.pow(free as u32);
                            for i in 0..total {
                                let mut x = i;
                                for p in 0..free {
                                    s[2 + p] = SYMS[(x % 9) as usize];
                                    x /= 9;
                                }
                                if split > 1 && s[2] != SYMS[part] {
                                    continue;
                                }
                                check_area(&s, m, &mut acc, case);
                            }
                            acc.flush(case, "dec:byte-strings");
                        },
                    );
                }
            }
            return;
        }
        if u < U_ENC {
            // every kind byte x every size byte, behind three prefixes, at every total length
            let hi = (u - U_SWEEP) as u8;
            for lo in 0..16u8 {
                let kind = (hi << 4) | lo;
                let m = &mut m;
                ctx.case(
                    None,
                    || CaseDesc { shape: "dec:kind-size-sweep".into(), text: format!("areas <prefix> {:02x} <size 00..ff> <body 01020304a5b6c7d8 1112...> for the prefixes (none), 01, 02040204 cut to every total length <= 40", kind), rank: kind as u64 },
                    |case| {
                        let mut acc = Acc::default();
                        let mut buf: Vec<u8> = vec![];
                        for prefix in [&[][..], &[1u8][..], &[2u8, 4, 2, 4][..]] {
                            for size in 0..=255u8 {
                                buf.clear();
                                buf.extend_from_slice(prefix);
                                buf.push(kind);
                                buf.push(size);
                                let mut i = 0;
                                while buf.len() < 40 {
                                    let b = blk(i / 8);
                                    buf.push(b[i % 8]);
                                    i += 1;
                                }
                                // the one byte cut does not depend on the size byte
                                let from = if size == 0 { prefix.len() + 1 } else { prefix.len() + 2 };
                                for l in from..=40 {
                                    check_area(&buf[..l], m, &mut acc, case);
                                }
                            }
                        }
                        acc.flush(case, "dec:kind-size-sweep");
                    },
                );
            }
            return;
        }
        if u < U_ENC + a * a {
            let i = ((u - U_ENC) / a) as usize;
            let j = ((u - U_ENC) % a) as usize;
            let depth = Self::list_depth(tier);
            let mut els: Vec<El> = vec![];
            let mut refs: Vec<R> = vec![];
            // lists [a_i] (in the unit of j == 0) and [a_i, a_j]
            let shorts: Vec<Vec<usize>> = if j == 0 { vec![vec![i], vec![i, j]] } else { vec![vec![i, j]] };
            for l in &shorts {
                let m = &mut m;
                let alpha = &alpha;
                ctx.case(
                    None,
                    || CaseDesc { shape: "enc:list".into(), text: format!("element list {:?}", l.iter().map(|x| alpha[*x].0).collect::<Vec<_>>()), rank: l.len() as u64 },
                    |case| {
                        let mut acc = Acc::default();
                        let e: Vec<El> = l.iter().map(|x| alpha[*x].1.clone()).collect();
                        let r: Vec<R> = l.iter().map(|x| alpha[*x].0).collect();
                        check_list(&e, &r, m, &mut acc, case);
                        acc.flush(case, "enc");
                    },
                );
            }
            if depth >= 3 {
                for k in 0..alpha.len() {
                    if ctx.done() {
                        return;
                    }
                    els.clear();
                    refs.clear();
                    for x in [i, j, k] {
                        els.push(alpha[x].1.clone());
                        refs.push(alpha[x].0);
                    }
                    let (m, alpha, els, refs) = (&mut m, &alpha, &mut els, &mut refs);
                    let prefix = format!("{:?}", refs);
                    ctx.case(
                        None,
                        || CaseDesc { shape: "enc:lists".into(), text: format!("every element list of <= {} elements that starts with {}", depth, prefix), rank: 3 },
                        |case| {
                            let mut acc = Acc::default();
                            dfs_lists(alpha, els, refs, depth - 3, m, &mut acc, case);
                            acc.flush(case, "enc");
                        },
                    );
                }
            }
            return;
        }
        // token sequences starting with (t_i, t_j)
        let t = toks.len() as u64;
        let v = u - U_ENC - a * a;
        let i = (v / t) as usize;
        let j = (v % t) as usize;
        let depth = Self::tok_depth(tier);
        let show = |seq: &[usize]| -> String { seq.iter().map(|x| hex(&toks[*x].b)).collect::<Vec<_>>().join(" ") };
        let shorts: Vec<Vec<usize>> = if j == 0 { vec![vec![i], vec![i, j]] } else { vec![vec![i, j]] };
        for s in &shorts {
            let m = &mut m;
            let toks = &toks;
            ctx.case(
                None,
                || CaseDesc { shape: "dec:tokens".into(), text: format!("token sequence [{}]: cut inside the last token, exact, padded with 00/01/ff to every length <= 40", show(s)), rank: s.len() as u64 },
                |case| {
                    let mut acc = Acc::default();
                    let mut buf = vec![];
                    seq_areas(toks, s, &mut buf, |area| check_area(area, m, &mut acc, case));
                    acc.flush(case, "dec");
                },
            );
        }
        if depth >= 3 {
            let m = &mut m;
            let toks = &toks;
            ctx.case(
                None,
                || CaseDesc { shape: "dec:tokens".into(), text: format!("token sequences [{} <any token>]: cut inside the last token, exact, padded with 00/01/ff to every length <= 40", show(&[i, j])), rank: 3 },
                |case| {
                    let mut acc = Acc::default();
                    let mut buf = vec![];
                    for k in 0..toks.len() {
                        seq_areas(toks, &[i, j, k], &mut buf, |area| check_area(area, m, &mut acc, case));
                    }
                    acc.flush(case, "dec");
                },
            );
        }
        if depth >= 4 {
            for k in 0..toks.len() {
                if ctx.done() {
                    return;
                }
                let m = &mut m;
                let toks = &toks;
                ctx.case(
                    None,
                    || CaseDesc { shape: "dec:tokens".into(), text: format!("token sequences [{} <any token>]: cut inside the last token, exact, padded with 00/01/ff to every length <= 40", show(&[i, j, k])), rank: 4 },
                    |case| {
                        let mut acc = Acc::default();
                        let mut buf = vec![];
                        for l in 0..toks.len() {
                            seq_areas(toks, &[i, j, k, l], &mut buf, |area| check_area(area, m, &mut acc, case));
                        }
                        acc.flush(case, "dec");
                    },
                );
            }
        }
    }
}

fn run_enc_misc(ctx: &mut Ctx, m: &mut Mem) {
    // the empty list
    ctx.case(
        None,
        || CaseDesc { shape: "enc:list".into(), text: "element list []".into(), rank: 0 },
        |case| {
            let mut acc = Acc::default();
            check_list(&[], &[], m, &mut acc, case);
            acc.flush(case, "enc");
        },
    );
    // lists around the limit
    for total in 38..=44usize {
        ctx.case(
            None,
            || CaseDesc { shape: "enc:limit".into(), text: format!("every multiset of option size classes {:?} with total wire length {} in ascending, descending and interleaved order", LIMIT_SIZES, total), rank: total as u64 },
            |case| {
                let mut acc = Acc::default();
                let mut all = vec![];
                compositions(total, 0, &mut vec![], &mut all);
                for ms in &all {
                    let n = ms.len();
                    let mut orders: Vec<Vec<usize>> = vec![ms.clone(), ms.iter().rev().cloned().collect()];
                    let mut inter = vec![];
                    for k in 0..n {
                        inter.push(if k % 2 == 0 { ms[k / 2] } else { ms[n - 1 - k / 2] });
                    }
                    orders.push(inter);
                    orders.dedup();
                    if orders.len() == 3 && orders[2] == orders[0] {
                        orders.pop();
                    }
                    for o in &orders {
                        let refs: Vec<R> = o.iter().enumerate().map(|(k, c)| limit_class(*c, k as u32)).collect();
                        let els: Vec<El> = refs.iter().map(|r| r.to_crate()).collect();
                        check_list(&els, &refs, m, &mut acc, case);
                    }
                }
                acc.flush(case, "enc:limit");
            },
        );
    }
    // raw areas: stored bytes, rounding, rejection beyond 40
    ctx.case(
        None,
        || CaseDesc { shape: "enc:raw".into(), text: "TcpOptions::try_from_slice / TryFrom<&[u8]> / TcpHeader::set_options_raw with 0..=44, 64, 255, 256, 1000 bytes of 0x00, 0x01, 0xff and counting bytes".into(), rank: 0 },
        |case| {
            let mut acc = Acc::default();
            let big = Arena::new(1);
            for len in (0..=44usize).chain([64, 255, 256, 1000]) {
                for pat in 0..4u8 {
                    let src: Vec<u8> = (0..len).map(|i| match pat {
                        0 => 0,
                        1 => 1,
                        2 => 0xff,
                        _ => (i as u8).wrapping_mul(7).wrapping_add(3),
                    }).collect();
                    let area = big.place_end(&src);
                    acc.states += 1;
                    acc.nontrivial += (len > 0) as u64;
                    acc.evals += 3;
                    case.at("TcpOptions::try_from_slice");
                    let r1 = guarded(|| TcpOptions::try_from_slice(area));
                    let r2 = guarded(|| TcpOptions::try_from(area));
                    let mut h = TcpHeader::new(1, 2, 3, 4);
                    case.at("TcpHeader::set_options_raw");
                    let r3 = guarded(|| h.set_options_raw(area)).map(|r| r.map(|_| h.options.clone()));
                    for (api, r) in [("TcpOptions::try_from_slice", r1), ("TcpOptions::try_from<&[u8]>", r2), ("TcpHeader::set_options_raw", r3)] {
                        match r {
                            Err(p) => acc.fail(case, format!("raw:panic:{}", api), || format!("{} bytes: {}", len, p)),
                            Ok(Err(TcpOptionWriteError::NotEnoughSpace(n))) => {
                                if len <= 40 {
                                    acc.fail(case, format!("raw:fitting-area-rejected:{}", api), || format!("{} bytes rejected with NotEnoughSpace({})", len, n));
                                } else if n != len {
                                    acc.fail(case, format!("raw:rejected-with-wrong-required-size:{}", api), || format!("{} bytes rejected with NotEnoughSpace({})", len, n));
                                } else if len == 41 {
                                    acc.r(20);
                                }
                            }
                            Ok(Ok(o)) => {
                                let want = (len + 3) / 4 * 4;
                                if len > 40 {
                                    acc.fail(case, format!("raw:oversize-area-accepted:{}", api), || format!("{} bytes accepted", len));
                                } else if o.len() != want || o.as_slice().len() != want || o.as_slice()[..len] != src[..] || o.as_slice()[len..].iter().any(|b| *b != 0) || o.data_offset() as usize != 5 + want / 4 {
                                    acc.fail(case, format!("raw:stored-bytes:{}", api), || format!("{} stored as {} len {} data_offset {}", hex(&src), hex(o.as_slice()), o.len(), o.data_offset()));
                                }
                            }
                        }
                    }
                }
            }
            acc.flush(case, "enc:raw");
        },
    );
}

#[cfg(test)]
mod test {
    use super::*;
    use std::collections::HashSet;

    /// the token areas are pairwise distinct (depth 2 completely)
    #[test]
    fn token_areas_distinct() {
        let toks = build_tokens();
        let mut seen: HashSet<Vec<u8>> = HashSet::new();
        let mut n = 0u64;
        let mut buf = vec![];
        let mut seqs: Vec<Vec<usize>> = vec![vec![]];
        for i in 0..toks.len() {
            seqs.push(vec![i]);
            for j in 0..toks.len() {
                seqs.push(vec![i, j]);
            }
        }
        for s in &seqs {
            seq_areas(&toks, s, &mut buf, |a| {
                n += 1;
                assert!(seen.insert(a.to_vec()), "duplicate area {} from {:?}", hex(a), s);
            });
        }
        assert!(n > 100_000);
    }
}
