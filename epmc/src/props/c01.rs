//! C01 — decoding never touches memory outside the given slice.
//!
//! E1 sweeps x every entry point of the door x observation of every accessor, under placements of
//! the input: (a) flush against a following 68 KiB PROT_NONE zone, neighbours poisoned 0xA5,
//! (b) flush after a preceding PROT_NONE zone, neighbours poisoned 0x5A, and in the thorough tier
//! (c)/(d) in the middle of a buffer poisoned with 0xA5 resp. 0x5A at offsets 1 and 3.
//! Oracle: worker survives (guard pages + std UB precondition checks of the checked build),
//! every slice handed out lies inside the input, the canonical observation text is identical
//! under all four placements.

use crate::fw::*;
use crate::mem::Arena;
use crate::pkt::{obs, sweep};

pub struct C01;

thread_local! {
    static ARENA: Arena = Arena::new(40);
}

impl Check for C01 {
    fn id(&self) -> &'static str {
        "C01"
    }
    fn rule(&self, tier: Tier) -> String {
        format!(
            "alphabet/bound: {}. Each case = (door, byte string) is decoded through every entry point of the door, every accessor/conversion/iterator is called, under {} placements (68 KiB guard zone behind + 0xA5 neighbours, guard zone in front + 0x5A neighbours{}). \
             oracle: no fatal signal (PROT_NONE pages around the input; SIGABRT from unsafe-precondition checks of the checked build), every returned slice inside the input, observation text (slices as (offset,len)) identical across placements. \
             distinct = distinct (door, bytes) by 64-bit hash; non-trivial = some entry point returned Ok or the input has >= 20 bytes.",
            sweep::describe_bounds(tier),
            if tier.is_thorough() { 4 } else { 2 },
            if tier.is_thorough() { ", offset 1 and 3 inside 0xA5 / 0x5A poison" } else { "" }
        )
    }
    fn assumptions(&self, _tier: Tier) -> Vec<String> {
        vec![
            "undefined behaviour that neither faults, nor trips a std precondition check, nor changes the observation is invisible (Miri tier: see DESIGN.md)".into(),
        ]
    }
    fn units(&self, tier: Tier) -> u64 {
        sweep::units(tier)
    }
    fn dedup_bits(&self, tier: Tier) -> u32 {
        if tier.is_thorough() {
            29
        } else {
            26
        }
    }
    fn expect_reach(&self, _tier: Tier) -> Vec<String> {
        vec!["ok:SlicedPacket::from_ethernet".into(), "ok:LaxSlicedPacket::from_ethernet".into(), "ok:Ipv6ExtensionsSlice::from_slice".into(), "err:LinuxSllHeader::read".into(), "ok:LinuxSllHeader::read".into()]
    }
    fn run_unit(&self, tier: Tier, u: u64, ctx: &mut Ctx) {
        let thorough = tier.is_thorough();
        sweep::run_unit(tier, u, ctx, &|door, bytes, _shape, case| {
            ARENA.with(|a| {
                let mut texts: Vec<String> = vec![];
                let placements = if thorough { 4 } else { 2 };
                for placement in 0..placements {
                    let b: &[u8] = match placement {
                        0 => {
                            a.poison_neighbours(bytes.len(), 0xA5);
                            a.place_end(bytes)
                        }
                        1 => {
                            a.poison_neighbours(bytes.len(), 0x5A);
                            a.place_start(bytes)
                        }
                        2 => a.place_mid(bytes, 1, 0xA5),
                        _ => a.place_mid(bytes, 3, 0x5A),
                    };
                    let mut s = obs::Sink::new(b, true);
                    obs::run_door(door, b, &mut s, case);
                    obs::checksum_touch(b, &mut s, case);
                    case.evals(s.evals);
                    if placement == 0 {
                        super::c02::summarize(&s, case);
                    }
                    for (sig, d) in s.bad.drain(..) {
                        if sig.starts_with("slice-outside-input") {
                            case.fail(sig, format!("placement {}: {}", placement, d));
                        }
                    }
                    texts.push(std::mem::take(&mut s.text));
                }
                for p in 1..placements {
                    if texts[p] != texts[0] {
                        // find the entry point section that differs
                        let (a0, ap) = (&texts[0], &texts[p]);
                        let pos = a0.bytes().zip(ap.bytes()).position(|(x, y)| x != y).unwrap_or(a0.len().min(ap.len()));
                        let start = a0[..pos.min(a0.len())].rfind("\n## ").unwrap_or(0);
                        let name = a0[start..].trim_start_matches("\n## ").split(':').next().unwrap_or("?").to_string();
                        let name2 = a0[start..].trim_start_matches("\n## ").splitn(3, ':').take(3).collect::<Vec<_>>().join(":");
                        let _ = name;
                        let ctxt = |t: &str| truncate(&t[pos.saturating_sub(60).min(t.len())..], 200);
                        case.fail(
                            format!("observation-depends-on-placement:{}", name2.split(": ").next().unwrap_or("?")),
                            format!("placement 0 vs {} differ at char {}: ...{}  VS  ...{}", p, pos, ctxt(a0), ctxt(ap)),
                        );
                        break;
                    }
                }
            });
        });
    }
}
