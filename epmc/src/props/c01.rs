//! C01 — decoding never touches memory outside the given slice.
//!
//! E1 sweeps x every entry point of the door x observation of every accessor, under placements of
//! the input: (a) flush against a following 68 KiB PROT_NONE zone, neighbours poisoned 0xA5,
//! (b) flush after a preceding PROT_NONE zone, neighbours poisoned 0x5A, and in the thorough tier
//! (c)/(d) in the middle of a buffer poisoned with 0xA5 resp. 0x5A at offsets 1 and 3.
//! Oracle: worker survives (guard pages + std UB precondition checks of the checked build),
//! every slice handed out lies inside the input, the canonical observation text is identical
//! under all four placements.

use crate::fw::*;
use crate::mem::Arena;
use crate::pkt::{obs, sweep};

pub struct C01;

/// `epmc miri-cases C01 <stride>`: prints the reduced-bound case list (natively; enumeration is too slow when interpreted)
pub fn miri_cases(stride: usize) -> i32 {
    let r = inproc("C01", |ctx| {
        sweep::run_reduced(ctx, true, stride, (0, 1), &|_door, _bytes, _shape, _case| {});
    });
    eprintln!("{} cases listed", r.cases);
    0
}

/// `epmc miri C01 <case file> <shard> <nshards>`: executes the listed cases of one shard with exact-size heap buffers
/// instead of the mmap arena; meant to be executed by Miri (which then is the monitor: out-of-bounds, uninitialised
/// reads, provenance, alignment, invalid values).
pub fn miri_main(file: &str, shard: (u64, u64)) -> i32 {
    use crate::pkt::gen::Door;
    let text = std::fs::read_to_string(file).unwrap_or_default();
    let mut todo: Vec<(u64, Door, Vec<u8>)> = vec![];
    for l in text.lines() {
        // MIRI-CASE <n> door=<door> bytes=<hex> (...)
        let mut it = l.split(' ');
        if it.next() != Some("MIRI-CASE") {
            continue;
        }
        let n: u64 = it.next().and_then(|x| x.parse().ok()).unwrap_or(0);
        if n % shard.1 != shard.0 {
            continue;
        }
        let door = it.next().and_then(|x| x.strip_prefix("door=")).and_then(Door::parse);
        let bytes = it.next().and_then(|x| x.strip_prefix("bytes=")).map(unhex);
        if let (Some(d), Some(b)) = (door, bytes) {
            todo.push((n, d, b));
        }
    }
    let r = inproc("C01", |ctx| {
        for (n, door, bytes) in &todo {
            println!("MIRI-EXEC {}", n);
            ctx.case(
                None,
                || CaseDesc { shape: door.name(), text: format!("door={} bytes={}", door.name(), hex(bytes)), rank: bytes.len() as u64 },
                |case| {
                    // exact-size allocation: every case gets its own heap object
                    let buf: Vec<u8> = bytes.to_vec();
                    let b: &[u8] = &buf[..];
                    let mut s = obs::Sink::new(b, false);
                    s.full = false;
                    obs::run_door(*door, b, &mut s, case);
                    obs::checksum_touch(b, &mut s, case);
                    case.evals(s.evals);
                    for (sig, d) in s.bad.drain(..) {
                        if sig.starts_with("slice-outside-input") {
                            case.fail(sig, d);
                        }
                    }
                },
            );
        }
    });
    for (sig, detail, text) in &r.violations {
        println!("MIRI-VIOLATION\t{}\t{}\t{}", sig, detail, text);
    }
    println!("MIRI-DONE cases={} evals={} violations={}", r.cases, r.evals, r.violations.len());
    if r.violations.is_empty() {
        0
    } else {
        1
    }
}

fn run_miri_stage(id: &str, stride: usize) -> PostRun {
    use std::process::Command;
    let exe = own_exe();
    // 1. case list, natively
    let list = Command::new(&exe).args(["miri-cases", id, &stride.to_string()]).output();
    let list = match list {
        Ok(o) if o.status.success() => String::from_utf8_lossy(&o.stdout).to_string(),
        _ => {
            let mut p = PostRun::default();
            p.machinery_errors.push("Miri stage: could not produce the case list".into());
            return p;
        }
    };
    run_miri_list(id, list, &format!("the reduced enumeration (37 stackings x {{0,1}} deviation x boundary cuts and every 4th byte of the innermost layer, every {}. deviating packet)", stride))
}

/// Executes the cases of `list` (lines `MIRI-CASE <n> ...`, interpreted by `epmc miri <id> <file>`) under
/// `cargo +nightly miri run`, one interpreter per core. Miri is the monitor (out-of-bounds, uninitialised reads,
/// provenance, alignment, invalid values); it stops a shard at its first undefined behaviour.
pub fn run_miri_list(id: &str, list: String, what: &str) -> PostRun {
    use std::process::{Command, Stdio};
    let mut p = PostRun::default();
    let exe = own_exe();
    let src = std::env::var("EPMC_SRC_DIR").unwrap_or_else(|_| format!("{}/epmc", verif_dir()));
    let tdir = exe.parent().and_then(|d| d.parent()).map(|d| d.to_path_buf()).unwrap_or_else(|| "/verif/target".into());
    let target = tdir.join("miri");
    let t0 = std::time::Instant::now();
    let ncases = list.lines().filter(|l| l.starts_with("MIRI-CASE")).count();
    let file = tdir.join(format!("miri-cases-{}.txt", id));
    if std::fs::write(&file, &list).is_err() {
        p.machinery_errors.push("Miri stage: could not write the case list".into());
        return p;
    }
    // 2. build once (so that the shards do not queue on the build lock), then one interpreter per core
    let mk = |shard: Option<(usize, usize)>| {
        let mut c = Command::new("cargo");
        c.args(["+nightly", "miri", "run", "--offline", "--quiet", "--", "miri", id, file.to_str().unwrap_or("")]);
        match shard {
            Some((s, n)) => {
                c.arg(s.to_string()).arg(n.to_string());
            }
            None => {
                // shard 1 of usize::MAX: executes nothing, only builds
                c.arg("1").arg("18446744073709551615");
            }
        }
        c.current_dir(&src).env("CARGO_TARGET_DIR", &target).env("MIRIFLAGS", "-Zmiri-disable-isolation").env("RUSTFLAGS", "--cfg etherparse_verif");
        c.stdin(Stdio::null()).stdout(Stdio::piped()).stderr(Stdio::piped());
        c
    };
    match mk(None).output() {
        Err(e) => {
            p.assumptions.push(format!("Miri stage could not be started ({}); the claim rests on guard zones, std precondition checks and placement independence only", e));
            p.coverage.push(("miri_stage".into(), "unavailable".into()));
            return p;
        }
        Ok(o) => {
            if !String::from_utf8_lossy(&o.stdout).contains("MIRI-DONE") {
                let se = String::from_utf8_lossy(&o.stderr).to_string();
                p.assumptions.push(format!("Miri stage unavailable in this environment ({}); the claim rests on guard zones, std precondition checks and placement independence only", truncate(&se.lines().rev().take(4).collect::<Vec<_>>().join(" | "), 400)));
                p.coverage.push(("miri_stage".into(), "unavailable".into()));
                return p;
            }
        }
    }
    let n = std::thread::available_parallelism().map(|n| n.get()).unwrap_or(4);
    // one pre-filtered case file per shard: parsing the complete list is slow when interpreted
    let mut kids = vec![];
    for sh in 0..n {
        let part: String = list
            .lines()
            .filter(|l| l.starts_with("MIRI-CASE"))
            .filter(|l| l.split(' ').nth(1).and_then(|x| x.parse::<usize>().ok()).map(|k| k % n == sh).unwrap_or(false))
            .map(|l| format!("{}\n", l))
            .collect();
        let f = tdir.join(format!("miri-cases-{}-{}.txt", id, sh));
        if std::fs::write(&f, part).is_err() {
            continue;
        }
        let mut c = Command::new("cargo");
        c.args(["+nightly", "miri", "run", "--offline", "--quiet", "--", "miri", id, f.to_str().unwrap_or(""), "0", "1"]);
        c.current_dir(&src).env("CARGO_TARGET_DIR", &target).env("MIRIFLAGS", "-Zmiri-disable-isolation").env("RUSTFLAGS", "--cfg etherparse_verif");
        c.stdin(Stdio::null()).stdout(Stdio::piped()).stderr(Stdio::piped());
        if let Ok(k) = c.spawn() {
            kids.push(k);
        }
    }
    let mut executed = 0usize;
    let mut completed = 0usize;
    for k in kids {
        let o = match k.wait_with_output() {
            Ok(o) => o,
            Err(_) => continue,
        };
        let so = String::from_utf8_lossy(&o.stdout).to_string();
        let se = String::from_utf8_lossy(&o.stderr).to_string();
        let last: u64 = so.lines().filter(|l| l.starts_with("MIRI-EXEC")).last().and_then(|l| l[10..].trim().parse().ok()).unwrap_or(0);
        executed += so.lines().filter(|l| l.starts_with("MIRI-EXEC")).count();
        for l in so.lines().filter(|l| l.starts_with("MIRI-VIOLATION")) {
            let f: Vec<&str> = l.split('\t').collect();
            if f.len() >= 4 {
                p.violations.push((format!("miri-stage:{}", f[1]), f[2].to_string(), f[3].to_string()));
            }
        }
        if so.contains("MIRI-DONE") {
            completed += 1;
        } else if se.contains("Undefined Behavior") {
            let msg: String = se.lines().skip_while(|l| !l.contains("Undefined Behavior")).take(16).collect::<Vec<_>>().join(" | ");
            let kind: String = msg.split("Undefined Behavior:").nth(1).unwrap_or("?").split('|').next().unwrap_or("?").trim().chars().filter(|c| !c.is_ascii_digit()).collect();
            let input = list.lines().find(|l| l.starts_with(&format!("MIRI-CASE {} ", last))).unwrap_or("").to_string();
            p.violations.push((
                format!("miri:undefined-behavior:{}", truncate(&kind, 80)),
                format!("Miri stopped this shard at its first undefined behaviour; the cases of the shard behind it were not examined. {}", truncate(&msg, 1500)),
                input,
            ));
        } else {
            p.machinery_errors.push(format!("Miri shard ended without MIRI-DONE (exit {:?}): {}", o.status.code(), truncate(&se.lines().rev().take(8).collect::<Vec<_>>().join(" | "), 800)));
        }
    }
    p.coverage.push((
        "miri_stage".into(),
        format!(
            "{} of {} cases of {} executed under `cargo +nightly miri run` in {} shards, {} shards ran to completion, {:.0} s",
            executed,
            ncases,
            what,
            n,
            completed,
            t0.elapsed().as_secs_f64()
        ),
    ));
    p
}

thread_local! {
    static ARENA: Arena = Arena::new(40);
}

impl Check for C01 {
    fn id(&self) -> &'static str {
        "C01"
    }
    fn rule(&self, tier: Tier) -> String {
        format!(
            "alphabet/bound: {}. Each case = (door, byte string) is decoded through every entry point of the door, every accessor/conversion/iterator is called, under {} placements (68 KiB guard zone behind + 0xA5 neighbours, guard zone in front + 0x5A neighbours{}). \
             oracle: no fatal signal (PROT_NONE pages around the input; SIGABRT from unsafe-precondition checks of the checked build), every returned slice inside the input, observation text (slices as (offset,len)) identical across placements. \
             distinct = distinct (door, bytes) by 64-bit hash; non-trivial = some entry point returned Ok or the input has >= 20 bytes.",
            sweep::describe_bounds(tier),
            if tier.is_thorough() { 4 } else { 2 },
            if tier.is_thorough() { ", offset 1 and 3 inside 0xA5 / 0x5A poison" } else { "" }
        )
    }
    fn assumptions(&self, _tier: Tier) -> Vec<String> {
        vec![
            "undefined behaviour that neither faults, nor trips a std precondition check, nor changes the observation is invisible (Miri tier: see DESIGN.md)".into(),
        ]
    }
    fn units(&self, tier: Tier) -> u64 {
        sweep::units(tier)
    }
    fn dedup_bits(&self, tier: Tier) -> u32 {
        if tier.is_thorough() {
            30
        } else {
            26
        }
    }
    fn expect_reach(&self, _tier: Tier) -> Vec<String> {
        vec!["ok:SlicedPacket::from_ethernet".into(), "ok:LaxSlicedPacket::from_ethernet".into(), "ok:Ipv6ExtensionsSlice::from_slice".into(), "err:LinuxSllHeader::read".into(), "ok:LinuxSllHeader::read".into()]
    }
    fn post_run(&self, tier: Tier) -> Option<PostRun> {
        if !tier.is_thorough() || std::env::var("EPMC_NO_MIRI").is_ok() {
            return None;
        }
        Some(run_miri_stage("C01", std::env::var("EPMC_MIRI_STRIDE").ok().and_then(|s| s.parse().ok()).unwrap_or(8)))
    }
    fn run_unit(&self, tier: Tier, u: u64, ctx: &mut Ctx) {
        let thorough = tier.is_thorough();
        sweep::run_unit(tier, u, ctx, &|door, bytes, _shape, case| {
            ARENA.with(|a| {
                let mut texts: Vec<String> = vec![];
                let placements = if thorough { 4 } else { 2 };
                for placement in 0..placements {
                    let b: &[u8] = match placement {
                        0 => {
                            a.poison_neighbours(bytes.len(), 0xA5);
                            a.place_end(bytes)
                        }
                        1 => {
                            a.poison_neighbours(bytes.len(), 0x5A);
                            a.place_start(bytes)
                        }
                        2 => a.place_mid(bytes, 1, 0xA5),
                        _ => a.place_mid(bytes, 3, 0x5A),
                    };
                    let mut s = obs::Sink::new(b, true);
                    obs::run_door(door, b, &mut s, case);
                    obs::checksum_touch(b, &mut s, case);
                    case.evals(s.evals);
                    if placement == 0 {
                        super::c02::summarize(&s, case);
                    }
                    for (sig, d) in s.bad.drain(..) {
                        // a panic in the checked build is an overflow / violated debug assertion of an unsafe contract:
                        // in the shipping profile the same input runs on into the unchecked code
                        if sig.starts_with("slice-outside-input") || sig.starts_with("panic:") {
                            case.fail(sig, format!("placement {}: {}", placement, d));
                        }
                    }
                    texts.push(std::mem::take(&mut s.text));
                }
                for p in 1..placements {
                    if texts[p] != texts[0] {
                        // find the entry point section that differs
                        let (a0, ap) = (&texts[0], &texts[p]);
                        let pos = a0.bytes().zip(ap.bytes()).position(|(x, y)| x != y).unwrap_or(a0.len().min(ap.len()));
                        let start = a0[..pos.min(a0.len())].rfind("\n## ").unwrap_or(0);
                        let name = a0[start..].trim_start_matches("\n## ").split(':').next().unwrap_or("?").to_string();
                        let name2 = a0[start..].trim_start_matches("\n## ").splitn(3, ':').take(3).collect::<Vec<_>>().join(":");
                        let _ = name;
                        let ctxt = |t: &str| truncate(&t[pos.saturating_sub(60).min(t.len())..], 200);
                        case.fail(
                            format!("observation-depends-on-placement:{}", name2.split(": ").next().unwrap_or("?")),
                            format!("placement 0 vs {} differ at char {}: ...{}  VS  ...{}", p, pos, ctxt(a0), ctxt(ap)),
                        );
                        break;
                    }
                }
            });
        });
    }
}
