//! C06 — equivalent entry points give equivalent answers.
//!
//! E1 sweeps x the pair table:
//!  (a) the twelve IP boundary implementations: IpSlice <-> Ipv4Slice / Ipv6Slice, LaxIpSlice <->
//!      LaxIpv4Slice / LaxIpv6Slice, IpHeaders::from_slice <-> from_ipv4_slice / from_ipv6_slice and
//!      the same three lax;
//!  (b) per whole-packet family: from_ethernet(b) <-> from_ether_type(type(b), b[14..]) with error
//!      offsets shifted by 14 (likewise from_linux_sll with 16), from_ether_type(0x0800 | 0x86DD, b)
//!      <-> from_ip(b);
//!  (c) the 17 header types with a reader: read(Cursor(b)) <-> from_slice(b): same header or a
//!      rejection for the same reason, and exactly the header's bytes are consumed.
//! Differential: the crate against itself; the reference decoder is only consulted to recognise
//! headers that carry two faults at once (there the siblings may name either one).

use crate::fw::*;
use crate::mem::rel;
use crate::pkt::conv::{self, CErr, ToCErr};
use crate::pkt::gen::Door;
use crate::pkt::refdec::{self, RLayer};
use crate::pkt::sweep;
use etherparse::err::Layer;
use etherparse::*;
use std::io::Cursor;

pub struct C06;

fn shift(l: &[RLayer], by: usize) -> Vec<RLayer> {
    l.iter()
        .map(|x| {
            let mut y = x.clone();
            y.off += by;
            if y.pay != conv::NOPAY {
                y.pay.0 += by;
            }
            for r in y.ranges.iter_mut() {
                if r.2 != 0 {
                    r.1 += by;
                }
            }
            y
        })
        .collect()
}
fn norm_layers(l: &[RLayer]) -> Vec<RLayer> {
    // positions of empty ranges carry no information
    l.iter()
        .map(|x| {
            let mut y = x.clone();
            if y.pay != conv::NOPAY && y.pay.1 == 0 {
                y.pay.0 = 0;
            }
            y
        })
        .collect()
}

/// number of coexisting faults in the first faulty layer (errors may legitimately differ when > 1)
fn multi_fault(door: Door, b: &[u8], lax: bool) -> bool {
    refdec::decode(door, b, lax).stop.map(|s| s.faults.len() > 1).unwrap_or(false)
}

fn cmp_err(api: &'static str, case: &mut Case, a: &CErr, bb: &CErr, multi: bool) {
    if a != bb && !multi {
        let what = match (a, bb) {
            (CErr::Len { off: o1, .. }, CErr::Len { off: o2, .. }) if o1 != o2 => "offset",
            (CErr::Len { src: s1, .. }, CErr::Len { src: s2, .. }) if s1 != s2 => "len_source",
            (CErr::Len { layer: l1, .. }, CErr::Len { layer: l2, .. }) if l1 != l2 => "layer",
            (CErr::Len { .. }, CErr::Len { .. }) => "lengths",
            _ => "kind",
        };
        case.fail(format!("errors-differ:{}:{}:{}~{}", api, what, a.class(), bb.class()), format!("{}: {:?} vs sibling {:?}", api, a, bb));
    }
}

type LaxStop = Option<(CErr, Layer)>;

fn cmp_res(api: &'static str, case: &mut Case, a: Result<(Vec<RLayer>, LaxStop), CErr>, bb: Result<(Vec<RLayer>, LaxStop), CErr>, multi: bool) {
    case.eval();
    case.eval();
    match (a, bb) {
        (Ok((l1, s1)), Ok((l2, s2))) => {
            let (l1, l2) = (norm_layers(&l1), norm_layers(&l2));
            if l1 != l2 {
                let k = l1.iter().zip(l2.iter()).find(|(x, y)| x != y).map(|(x, _)| format!("{:?}", x.kind)).unwrap_or_else(|| "count".into());
                case.fail(format!("results-differ:{}:{}", api, k), format!("{}: {:?} vs sibling {:?}", api, l1, l2));
            }
            match (s1, s2) {
                (None, None) => {}
                (Some((e1, y1)), Some((e2, y2))) => {
                    if y1 != y2 {
                        case.fail(format!("stop-layer-differs:{}", api), format!("{}: {:?} vs sibling {:?}", api, y1, y2));
                    }
                    cmp_err(api, case, &e1, &e2, multi);
                }
                (x, y) => case.fail(format!("stop-differs:{}", api), format!("{}: stop {:?} vs sibling {:?}", api, x, y)),
            }
        }
        (Err(e1), Err(e2)) => cmp_err(api, case, &e1, &e2, multi),
        (Ok(_), Err(e)) => case.fail(format!("verdict-differs:{}:ok-vs-err:{}", api, e.class()), format!("{}: Ok vs sibling Err({:?})", api, e)),
        (Err(e), Ok(_)) => case.fail(format!("verdict-differs:{}:err-vs-ok:{}", api, e.class()), format!("{}: Err({:?}) vs sibling Ok", api, e)),
    }
}

fn pstop(s: &Option<(err::packet::SliceError, Layer)>) -> LaxStop {
    s.as_ref().map(|(e, l)| (e.cerr(), *l))
}
fn sl(b: &[u8], r: &Result<SlicedPacket, err::packet::SliceError>, by: usize) -> Result<(Vec<RLayer>, LaxStop), CErr> {
    match r {
        Ok(p) => Ok((shift(&conv::sliced_layers(b, p).unwrap_or_default(), by), None)),
        Err(e) => Err(e.cerr().shifted(by)),
    }
}
fn lsl(b: &[u8], p: &LaxSlicedPacket, by: usize) -> (Vec<RLayer>, LaxStop) {
    (shift(&conv::lax_sliced_layers(b, p).unwrap_or_default(), by), pstop(&p.stop_err).map(|(e, l)| (e.shifted(by), l)))
}

/// struct results: headers + payload range
#[derive(PartialEq, Debug)]
struct HS {
    link_exts: Vec<LinkExtHeader>,
    net: Option<NetHeaders>,
    transport: Option<TransportHeader>,
    payload: (usize, usize),
    stop: LaxStop,
}
fn hs(b: &[u8], h: &PacketHeaders, by: usize) -> HS {
    let p = rel(b, h.payload.slice()).unwrap_or((usize::MAX, 0));
    HS { link_exts: h.link_exts.to_vec(), net: h.net.clone(), transport: h.transport.clone(), payload: if p.1 == 0 { (0, 0) } else { (p.0 + by, p.1) }, stop: None }
}
fn lhs(b: &[u8], h: &LaxPacketHeaders, by: usize) -> HS {
    let p = rel(b, h.payload.slice()).unwrap_or((usize::MAX, 0));
    HS { link_exts: h.link_exts.to_vec(), net: h.net.clone(), transport: h.transport.clone(), payload: if p.1 == 0 { (0, 0) } else { (p.0 + by, p.1) }, stop: pstop(&h.stop_err).map(|(e, l)| (e.shifted(by), l)) }
}
fn cmp_hs(api: &'static str, case: &mut Case, a: Result<HS, CErr>, bb: Result<HS, CErr>, multi: bool) {
    case.eval();
    case.eval();
    match (a, bb) {
        (Ok(mut x), Ok(mut y)) => {
            let (s1, s2) = (x.stop.take(), y.stop.take());
            if x != y {
                case.fail(format!("results-differ:{}", api), format!("{}: {:?} vs sibling {:?}", api, x, y));
            }
            match (s1, s2) {
                (None, None) => {}
                (Some((e1, y1)), Some((e2, y2))) => {
                    if y1 != y2 {
                        case.fail(format!("stop-layer-differs:{}", api), format!("{}: {:?} vs sibling {:?}", api, y1, y2));
                    }
                    cmp_err(api, case, &e1, &e2, multi);
                }
                (p, q) => case.fail(format!("stop-differs:{}", api), format!("{}: stop {:?} vs sibling {:?}", api, p, q)),
            }
        }
        (Err(e1), Err(e2)) => cmp_err(api, case, &e1, &e2, multi),
        (Ok(_), Err(e)) => case.fail(format!("verdict-differs:{}:ok-vs-err:{}", api, e.class()), format!("{}: Ok vs sibling Err({:?})", api, e)),
        (Err(e), Ok(_)) => case.fail(format!("verdict-differs:{}:err-vs-ok:{}", api, e.class()), format!("{}: Err({:?}) vs sibling Ok", api, e)),
    }
}

// ---- readers -------------------------------------------------------------------------------

#[derive(Debug, PartialEq)]
enum RE {
    Eof,
    Io(String),
    Err(CErr),
}
fn io(e: &std::io::Error) -> RE {
    if e.kind() == std::io::ErrorKind::UnexpectedEof {
        RE::Eof
    } else {
        RE::Io(format!("{:?}", e.kind()))
    }
}

/// compare a reader with the slice decoder of the same header
/// * `slice`: Ok(number of bytes the slice decoder consumed) or its error
/// * `read`: Ok(cursor position) or its error
/// * `equal`: the two decoded headers are equal (only meaningful when both are Ok)
fn cmp_read(api: &'static str, case: &mut Case, slice: Result<usize, CErr>, read: Result<u64, RE>, equal: bool, multi: bool) {
    case.eval();
    case.eval();
    match (slice, read) {
        (Ok(n), Ok(pos)) => {
            if !equal {
                case.fail(format!("read-differs-from-slice:{}:value", api), format!("{}: reader and slice decoder return different headers", api));
            }
            if pos as usize != n {
                case.fail(format!("read-differs-from-slice:{}:consumed", api), format!("{}: reader consumed {} bytes, the header has {}", api, pos, n));
            }
            case.reach("read-ok");
            case.reach(format!("read-ok:{}", api));
        }
        (Err(CErr::Len { .. }), Err(RE::Eof)) => case.reach("read-eof"),
        (Err(e @ CErr::Content { .. }), Err(RE::Err(e2))) => {
            if e != e2 && !multi {
                case.fail(format!("read-differs-from-slice:{}:content-error", api), format!("{}: slice {:?} vs reader {:?}", api, e, e2));
            }
            case.reach("read-content-err");
        }
        // two faults in one header (cut short AND content rule violated): either may be reported
        (Err(CErr::Len { .. }), Err(RE::Err(CErr::Content { .. }))) | (Err(CErr::Content { .. }), Err(RE::Eof)) if multi => {}
        (s, r) => case.fail(format!("read-differs-from-slice:{}:verdict", api), format!("{}: slice decoder {:?} vs reader {:?}", api, s.map_err(|e| e.class()), r)),
    }
}

/// `read_limited` over a LimitedReader whose budget equals the data ~ from_slice: same header and consumed bytes;
/// a slice length error shows as the limited reader's Len error (or EOF), content errors are equal
fn cmp_limited(api: &'static str, case: &mut Case, slice: Result<usize, CErr>, read: Result<u64, RE>, equal: bool, multi: bool) {
    case.eval();
    case.eval();
    match (slice, read) {
        (Ok(n), Ok(pos)) => {
            if !equal {
                case.fail(format!("read-differs-from-slice:{}:value", api), format!("{}: limited reader and slice decoder return different headers", api));
            }
            if pos as usize != n {
                case.fail(format!("read-differs-from-slice:{}:consumed", api), format!("{}: limited reader consumed {} bytes, the header has {}", api, pos, n));
            }
            case.reach("limited-ok");
            case.reach(format!("read-ok:{}", api));
        }
        (Err(CErr::Len { .. }), Err(RE::Err(CErr::Len { .. }))) | (Err(CErr::Len { .. }), Err(RE::Eof)) => case.reach("limited-len-err"),
        (Err(e @ CErr::Content { .. }), Err(RE::Err(e2 @ CErr::Content { .. }))) => {
            if e != e2 && !multi {
                case.fail(format!("read-differs-from-slice:{}:content-error", api), format!("{}: slice {:?} vs limited reader {:?}", api, e, e2));
            }
        }
        (Err(_), Err(_)) if multi => {}
        (s, r) => case.fail(format!("read-differs-from-slice:{}:verdict", api), format!("{}: slice decoder {:?} vs limited reader {:?}", api, s.map_err(|e| e.class()), r)),
    }
}
fn lim(e: &err::io::LimitedReadError) -> RE {
    match e {
        err::io::LimitedReadError::Io(i) => io(i),
        err::io::LimitedReadError::Len(l) => RE::Err(conv::len_err(l)),
    }
}

macro_rules! rd_pair {
    // plain io::Error readers
    ($case:expr, $api:literal, $b:expr, $ty:ty, $multi:expr) => {{
        $case.at($api);
        let s = <$ty>::from_slice($b);
        let mut c = Cursor::new($b);
        let r = <$ty>::read(&mut c);
        let pos = c.position();
        let eq = match (&s, &r) {
            (Ok((h, _)), Ok(h2)) => h == h2,
            _ => false,
        };
        cmp_read($api, $case, s.as_ref().map(|(_, rest)| $b.len() - rest.len()).map_err(|e| e.cerr()), r.as_ref().map(|_| pos).map_err(|e| io(e)), eq, $multi);
    }};
}
macro_rules! rd_pair_c {
    // readers with {Io, Content}
    ($case:expr, $api:literal, $b:expr, $ty:ty, $errty:path, $multi:expr) => {{
        $case.at($api);
        let s = <$ty>::from_slice($b);
        let mut c = Cursor::new($b);
        let r = <$ty>::read(&mut c);
        let pos = c.position();
        let eq = match (&s, &r) {
            (Ok((h, _)), Ok(h2)) => h == h2,
            _ => false,
        };
        use $errty as E;
        cmp_read(
            $api,
            $case,
            s.as_ref().map(|(_, rest)| $b.len() - rest.len()).map_err(|e| e.cerr()),
            r.as_ref().map(|_| pos).map_err(|e| match e {
                E::Io(i) => io(i),
                E::Content(c) => RE::Err(c.cerr()),
            }),
            eq,
            $multi,
        );
    }};
}

/// the deprecated `read_from_slice` names are documented as renamed `from_slice`: same result, same rest
fn alias_pair<H: PartialEq + std::fmt::Debug, E: std::fmt::Debug>(api: &'static str, case: &mut Case, b: &[u8], old: Result<(H, &[u8]), E>, new: Result<(H, &[u8]), E>) {
    case.at(api);
    case.eval();
    case.eval();
    let same = match (&old, &new) {
        (Ok((h1, r1)), Ok((h2, r2))) => h1 == h2 && rel(b, r1) == rel(b, r2),
        (Err(e1), Err(e2)) => format!("{:?}", e1) == format!("{:?}", e2),
        _ => false,
    };
    if !same {
        case.fail(format!("alias-differs:{}", api), format!("{}: {:?} but from_slice gives {:?}", api, old.map(|(h, r)| (h, r.len())), new.map(|(h, r)| (h, r.len()))));
    }
}

#[allow(deprecated)]
fn deprecated_aliases(door: Door, b: &[u8], case: &mut Case) {
    match door {
        Door::Eth2 => alias_pair("Ethernet2Header::read_from_slice", case, b, Ethernet2Header::read_from_slice(b), Ethernet2Header::from_slice(b)),
        Door::Ether(0x8100) | Door::Ether(0x88A8) | Door::Ether(0x9100) => alias_pair("SingleVlanHeader::read_from_slice", case, b, SingleVlanHeader::read_from_slice(b), SingleVlanHeader::from_slice(b)),
        Door::Ip => {
            alias_pair("Ipv4Header::read_from_slice", case, b, Ipv4Header::read_from_slice(b), Ipv4Header::from_slice(b));
            alias_pair("Ipv6Header::read_from_slice", case, b, Ipv6Header::read_from_slice(b), Ipv6Header::from_slice(b));
            alias_pair(
                "IpHeaders::read_from_slice",
                case,
                b,
                IpHeaders::read_from_slice(b).map(|(h, n, r)| ((h, n), r)),
                IpHeaders::from_slice(b).map(|(h, p)| ((h, p.ip_number), p.payload)),
            );
        }
        Door::Transport(17) => alias_pair("UdpHeader::read_from_slice", case, b, UdpHeader::read_from_slice(b), UdpHeader::from_slice(b)),
        Door::Transport(6) => alias_pair("TcpHeader::read_from_slice", case, b, TcpHeader::read_from_slice(b), TcpHeader::from_slice(b)),
        _ => {}
    }
}

pub fn check_case(door: Door, b: &[u8], case: &mut Case) {
    deprecated_aliases(door, b, case);
    case.outcome(format!("{}:{}", super::c03::door_class(door), refdec::decode(door, b, false).shape()));
    if b.len() >= 8 {
        case.nontrivial();
    }
    let multi_s = multi_fault(door, b, false);
    let multi_l = multi_fault(door, b, true);
    match door {
        Door::Eth2 => {
            rd_pair!(case, "Ethernet2Header::read", b, Ethernet2Header, multi_s);
            if b.len() >= 14 {
                let et = EtherType(u16::from_be_bytes([b[12], b[13]]));
                let inner = &b[14..];
                let m_s = multi_fault(Door::Ether(et.0), inner, false);
                let m_l = multi_fault(Door::Ether(et.0), inner, true);
                case.at("SlicedPacket::from_ethernet~from_ether_type");
                let (a, c) = (SlicedPacket::from_ethernet(b), SlicedPacket::from_ether_type(et, inner));
                let mut la = sl(b, &a, 0);
                if let Ok((l, _)) = la.as_mut() {
                    l.retain(|x| x.kind != refdec::RK::Eth2);
                }
                cmp_res("SlicedPacket::from_ethernet~from_ether_type", case, la, sl(inner, &c, 14), m_s);
                case.at("LaxSlicedPacket::from_ethernet~from_ether_type");
                if let Ok(a) = LaxSlicedPacket::from_ethernet(b) {
                    let c = LaxSlicedPacket::from_ether_type(et, inner);
                    let mut la = lsl(b, &a, 0);
                    la.0.retain(|x| x.kind != refdec::RK::Eth2);
                    cmp_res("LaxSlicedPacket::from_ethernet~from_ether_type", case, Ok(la), Ok(lsl(inner, &c, 14)), m_l);
                } else {
                    case.fail("verdict-differs:LaxSlicedPacket::from_ethernet", "Err although 14 bytes are present".to_string());
                }
                case.at("PacketHeaders::from_ethernet_slice~from_ether_type");
                let (a, c) = (PacketHeaders::from_ethernet_slice(b), PacketHeaders::from_ether_type(et, inner));
                cmp_hs("PacketHeaders::from_ethernet_slice~from_ether_type", case, a.as_ref().map(|h| hs(b, h, 0)).map_err(|e| e.cerr()), c.as_ref().map(|h| hs(inner, h, 14)).map_err(|e| e.cerr().shifted(14)), m_s);
                case.at("LaxPacketHeaders::from_ethernet~from_ether_type");
                if let Ok(a) = LaxPacketHeaders::from_ethernet(b) {
                    let c = LaxPacketHeaders::from_ether_type(et, inner);
                    cmp_hs("LaxPacketHeaders::from_ethernet~from_ether_type", case, Ok(lhs(b, &a, 0)), Ok(lhs(inner, &c, 14)), m_l);
                } else {
                    case.fail("verdict-differs:LaxPacketHeaders::from_ethernet", "Err although 14 bytes are present".to_string());
                }
                case.reach("pair:ethernet~ether_type");
            }
        }
        Door::Sll => {
            case.at("LinuxSllHeader::read");
            let s = LinuxSllHeader::from_slice(b);
            let mut c = Cursor::new(b);
            let r = LinuxSllHeader::read(&mut c);
            let pos = c.position();
            let eq = match (&s, &r) {
                (Ok((h, _)), Ok(h2)) => h == h2,
                _ => false,
            };
            cmp_read(
                "LinuxSllHeader::read",
                case,
                s.as_ref().map(|(_, rest)| b.len() - rest.len()).map_err(|e| e.cerr()),
                r.as_ref().map(|_| pos).map_err(|e| match e {
                    err::ReadError::Io(i) => io(i),
                    err::ReadError::LinuxSll(c) => RE::Err(c.cerr()),
                    o => RE::Io(format!("{:?}", o)),
                }),
                eq,
                multi_s,
            );
            if let Ok((h, inner)) = &s {
                if let LinuxSllProtocolType::EtherType(et) = h.protocol_type {
                    let m_s = multi_fault(Door::Ether(et.0), inner, false);
                    let m_l = multi_fault(Door::Ether(et.0), inner, true);
                    case.at("SlicedPacket::from_linux_sll~from_ether_type");
                    let (a, c) = (SlicedPacket::from_linux_sll(b), SlicedPacket::from_ether_type(et, inner));
                    let mut la = sl(b, &a, 0);
                    if let Ok((l, _)) = la.as_mut() {
                        l.retain(|x| x.kind != refdec::RK::Sll);
                    }
                    cmp_res("SlicedPacket::from_linux_sll~from_ether_type", case, la, sl(inner, &c, 16), m_s);
                    case.at("LaxPacketHeaders::from_linux_sll~from_ether_type");
                    if let Ok(a) = LaxPacketHeaders::from_linux_sll(b) {
                        let c = LaxPacketHeaders::from_ether_type(et, inner);
                        cmp_hs("LaxPacketHeaders::from_linux_sll~from_ether_type", case, Ok(lhs(b, &a, 0)), Ok(lhs(inner, &c, 16)), m_l);
                    }
                    case.reach("pair:sll~ether_type");
                }
            }
        }
        Door::Ether(t) => {
            match t {
                0x8100 | 0x88A8 | 0x9100 => rd_pair!(case, "SingleVlanHeader::read", b, SingleVlanHeader, multi_s),
                0x88E5 => {
                    case.at("MacsecHeader::read");
                    let s = MacsecHeader::from_slice(b);
                    let mut c = Cursor::new(b);
                    let r = MacsecHeader::read(&mut c);
                    let pos = c.position();
                    let eq = match (&s, &r) {
                        (Ok(h), Ok(h2)) => h == h2,
                        _ => false,
                    };
                    cmp_read(
                        "MacsecHeader::read",
                        case,
                        s.as_ref().map(|h| h.header_len()).map_err(|e| e.cerr()),
                        r.as_ref().map(|_| pos).map_err(|e| match e {
                            err::macsec::HeaderReadError::Io(i) => io(i),
                            err::macsec::HeaderReadError::Content(c) => RE::Err(c.cerr()),
                        }),
                        eq,
                        multi_s,
                    );
                }
                0x0806 => {
                    case.at("ArpPacket::read");
                    let s = ArpPacket::from_slice(b);
                    let mut c = Cursor::new(b);
                    let r = ArpPacket::read(&mut c);
                    let pos = c.position();
                    let eq = match (&s, &r) {
                        (Ok(h), Ok(h2)) => h == h2,
                        _ => false,
                    };
                    cmp_read("ArpPacket::read", case, s.as_ref().map(|h| h.packet_len()).map_err(|e| e.cerr()), r.as_ref().map(|_| pos).map_err(io), eq, true);
                }
                _ => {}
            }
            // from_ether_type(ipv4 | ipv6) ~ from_ip when the version nibble agrees with the ether type
            if !b.is_empty() && ((t == 0x0800 && b[0] >> 4 == 4) || (t == 0x86DD && b[0] >> 4 == 6)) {
                let m_s = multi_fault(Door::Ip, b, false);
                let m_l = multi_fault(Door::Ip, b, true);
                case.at("SlicedPacket::from_ether_type~from_ip");
                cmp_res("SlicedPacket::from_ether_type~from_ip", case, sl(b, &SlicedPacket::from_ether_type(EtherType(t), b), 0), sl(b, &SlicedPacket::from_ip(b), 0), m_s);
                case.at("PacketHeaders::from_ether_type~from_ip_slice");
                let (a, c) = (PacketHeaders::from_ether_type(EtherType(t), b), PacketHeaders::from_ip_slice(b));
                cmp_hs("PacketHeaders::from_ether_type~from_ip_slice", case, a.as_ref().map(|h| hs(b, h, 0)).map_err(|e| e.cerr()), c.as_ref().map(|h| hs(b, h, 0)).map_err(|e| e.cerr()), m_s);
                case.at("LaxSlicedPacket::from_ether_type~from_ip");
                let a = LaxSlicedPacket::from_ether_type(EtherType(t), b);
                match LaxSlicedPacket::from_ip(b) {
                    Ok(c) => cmp_res("LaxSlicedPacket::from_ether_type~from_ip", case, Ok(lsl(b, &a, 0)), Ok(lsl(b, &c, 0)), m_l),
                    Err(e) => {
                        // from_ip fails on the first header; the ether type door reports the same fault as stop error on the IP header
                        case.eval();
                        match pstop(&a.stop_err) {
                            Some((e2, _)) => cmp_err("LaxSlicedPacket::from_ether_type~from_ip", case, &e2, &e.cerr(), m_l),
                            None => case.fail("verdict-differs:LaxSlicedPacket::from_ether_type~from_ip", format!("from_ip fails with {:?}, from_ether_type reports no stop error", e)),
                        }
                    }
                }
                case.at("LaxPacketHeaders::from_ether_type~from_ip");
                let a = LaxPacketHeaders::from_ether_type(EtherType(t), b);
                match LaxPacketHeaders::from_ip(b) {
                    Ok(c) => cmp_hs("LaxPacketHeaders::from_ether_type~from_ip", case, Ok(lhs(b, &a, 0)), Ok(lhs(b, &c, 0)), m_l),
                    Err(e) => {
                        case.eval();
                        match pstop(&a.stop_err) {
                            Some((e2, _)) => cmp_err("LaxPacketHeaders::from_ether_type~from_ip", case, &e2, &e.cerr(), m_l),
                            None => case.fail("verdict-differs:LaxPacketHeaders::from_ether_type~from_ip", format!("from_ip fails with {:?}, from_ether_type reports no stop error", e)),
                        }
                    }
                }
                case.reach("pair:ether_type~ip");
            }
        }
        Door::Ip => {
            if b.is_empty() {
                return;
            }
            let v = b[0] >> 4;
            let ipl = |i: &IpSlice| -> Vec<RLayer> {
                let mut o = vec![];
                let _ = match i {
                    IpSlice::Ipv4(x) => conv::ipv4_layers(b, x, &mut o),
                    IpSlice::Ipv6(x) => conv::ipv6_layers(b, x, &mut o),
                };
                o
            };
            let lipl = |i: &LaxIpSlice| -> Vec<RLayer> {
                let mut o = vec![];
                let _ = match i {
                    LaxIpSlice::Ipv4(x) => conv::lax_ipv4_layers(b, x, &mut o),
                    LaxIpSlice::Ipv6(x) => conv::lax_ipv6_layers(b, x, &mut o),
                };
                o
            };
            let ms = refdec::decode_ip_only(b, false, None).stop.map(|s| s.faults.len() > 1).unwrap_or(false);
            let ml = refdec::decode_ip_only(b, true, None).stop.map(|s| s.faults.len() > 1).unwrap_or(false);
            if v == 4 {
                case.at("IpSlice::from_slice~Ipv4Slice::from_slice");
                let a = IpSlice::from_slice(b).map(|i| (ipl(&i), None)).map_err(|e| e.cerr());
                let c = Ipv4Slice::from_slice(b)
                    .map(|i| {
                        let mut o = vec![];
                        let _ = conv::ipv4_layers(b, &i, &mut o);
                        (o, None)
                    })
                    .map_err(|e| e.cerr());
                cmp_res("IpSlice::from_slice~Ipv4Slice::from_slice", case, a, c, ms);
                case.at("LaxIpSlice::from_slice~LaxIpv4Slice::from_slice");
                let a = LaxIpSlice::from_slice(b).map(|(i, s)| (lipl(&i), s.map(|(e, l)| (e.cerr(), l)))).map_err(|e| e.cerr());
                let c = LaxIpv4Slice::from_slice(b)
                    .map(|(i, s)| {
                        let mut o = vec![];
                        let _ = conv::lax_ipv4_layers(b, &i, &mut o);
                        (o, s.map(|e| (e.cerr(), Layer::IpAuthHeader)))
                    })
                    .map_err(|e| e.cerr());
                cmp_res("LaxIpSlice::from_slice~LaxIpv4Slice::from_slice", case, a, c, ml);
                case.at("IpHeaders::from_slice~from_ipv4_slice");
                iph_pair("IpHeaders::from_slice~from_ipv4_slice", case, b, IpHeaders::from_slice(b).map_err(|e| e.cerr()), IpHeaders::from_ipv4_slice(b).map_err(|e| e.cerr()), ms);
                case.at("IpHeaders::from_slice_lax~from_ipv4_slice_lax");
                iph_lax_pair(
                    "IpHeaders::from_slice_lax~from_ipv4_slice_lax",
                    case,
                    b,
                    IpHeaders::from_slice_lax(b).map(|(h, p, s)| (h, p, s.map(|(e, l)| (e.cerr(), l)))).map_err(|e| e.cerr()),
                    IpHeaders::from_ipv4_slice_lax(b).map(|(h, p, s)| (h, p, s.map(|e| (e.cerr(), Layer::IpAuthHeader)))).map_err(|e| e.cerr()),
                    ml,
                );
                case.reach("pair:ip~ipv4");
                rd_pair_c!(case, "Ipv4Header::read", b, Ipv4Header, err::ipv4::HeaderReadError, ms);
                {
                    // read_without_version(first byte given separately) ~ read
                    case.at("Ipv4Header::read_without_version");
                    let mut c1 = Cursor::new(b);
                    let r1 = Ipv4Header::read(&mut c1);
                    let mut c2 = Cursor::new(&b[1..]);
                    let r2 = Ipv4Header::read_without_version(&mut c2, b[0]);
                    case.eval();
                    let same = match (&r1, &r2) {
                        (Ok(a), Ok(c)) => a == c && c1.position() == c2.position() + 1,
                        (Err(a), Err(c)) => format!("{:?}", a) == format!("{:?}", c),
                        _ => false,
                    };
                    if !same {
                        case.fail("read-differs:Ipv4Header::read~read_without_version", format!("read {:?} (pos {}) vs read_without_version {:?} (pos {})", r1, c1.position(), r2, c2.position()));
                    }
                }
            } else if v == 6 {
                case.at("IpSlice::from_slice~Ipv6Slice::from_slice");
                let a = IpSlice::from_slice(b).map(|i| (ipl(&i), None)).map_err(|e| e.cerr());
                let c = Ipv6Slice::from_slice(b)
                    .map(|i| {
                        let mut o = vec![];
                        let _ = conv::ipv6_layers(b, &i, &mut o);
                        (o, None)
                    })
                    .map_err(|e| e.cerr());
                cmp_res("IpSlice::from_slice~Ipv6Slice::from_slice", case, a, c, ms);
                case.at("LaxIpSlice::from_slice~LaxIpv6Slice::from_slice");
                let a = LaxIpSlice::from_slice(b).map(|(i, s)| (lipl(&i), s.map(|(e, l)| (e.cerr(), l)))).map_err(|e| e.cerr());
                let c = LaxIpv6Slice::from_slice(b)
                    .map(|(i, s)| {
                        let mut o = vec![];
                        let _ = conv::lax_ipv6_layers(b, &i, &mut o);
                        (o, s.map(|(e, l)| (e.cerr(), l)))
                    })
                    .map_err(|e| e.cerr());
                cmp_res("LaxIpSlice::from_slice~LaxIpv6Slice::from_slice", case, a, c, ml);
                case.at("IpHeaders::from_slice~from_ipv6_slice");
                iph_pair("IpHeaders::from_slice~from_ipv6_slice", case, b, IpHeaders::from_slice(b).map_err(|e| e.cerr()), IpHeaders::from_ipv6_slice(b).map_err(|e| e.cerr()), ms);
                case.at("IpHeaders::from_slice_lax~from_ipv6_slice_lax");
                iph_lax_pair(
                    "IpHeaders::from_slice_lax~from_ipv6_slice_lax",
                    case,
                    b,
                    IpHeaders::from_slice_lax(b).map(|(h, p, s)| (h, p, s.map(|(e, l)| (e.cerr(), l)))).map_err(|e| e.cerr()),
                    IpHeaders::from_ipv6_slice_lax(b).map(|(h, p, s)| (h, p, s.map(|(e, l)| (e.cerr(), l)))).map_err(|e| e.cerr()),
                    ml,
                );
                case.reach("pair:ip~ipv6");
                rd_pair_c!(case, "Ipv6Header::read", b, Ipv6Header, err::ipv6::HeaderReadError, ms);
                {
                    case.at("Ipv6Header::read_without_version");
                    let mut c1 = Cursor::new(b);
                    let r1 = Ipv6Header::read(&mut c1);
                    let mut c2 = Cursor::new(&b[1..]);
                    let r2 = Ipv6Header::read_without_version(&mut c2, b[0] & 0xf);
                    case.eval();
                    let same = match (&r1, &r2) {
                        (Ok(a), Ok(c)) => a == c && c1.position() == c2.position() + 1,
                        (Err(_), Err(_)) => true,
                        _ => false,
                    };
                    if !same {
                        case.fail("read-differs:Ipv6Header::read~read_without_version", format!("read {:?} (pos {}) vs read_without_version {:?} (pos {})", r1, c1.position(), r2, c2.position()));
                    }
                }
            }
            // IpHeaders::read ~ IpHeaders::from_slice on slices that hold the announced packet
            let announced_ok = match v {
                4 => b.len() >= 20 && u16::from_be_bytes([b[2], b[3]]) as usize <= b.len(),
                6 => b.len() >= 40 && (b[4] != 0 || b[5] != 0) && 40 + u16::from_be_bytes([b[4], b[5]]) as usize <= b.len(),
                _ => true,
            };
            if announced_ok {
                case.at("IpHeaders::read");
                let s = IpHeaders::from_slice(b);
                let mut c = Cursor::new(b);
                let r = IpHeaders::read(&mut c);
                let pos = c.position();
                case.eval();
                case.eval();
                match (&s, &r) {
                    (Ok((h, p)), Ok((h2, n))) => {
                        let consumed = rel(b, p.payload).map(|x| if x.1 == 0 { h.header_len() } else { x.0 }).unwrap_or(usize::MAX);
                        if h != h2 || p.ip_number != *n {
                            case.fail("read-differs-from-slice:IpHeaders::read:value", format!("slice {:?}/{:?} vs reader {:?}/{:?}", h, p.ip_number, h2, n));
                        }
                        if pos as usize != consumed {
                            case.fail("read-differs-from-slice:IpHeaders::read:consumed", format!("reader consumed {} bytes, the headers have {}", pos, consumed));
                        }
                        case.reach("read-ok");
                    }
                    (Err(err::ip::HeadersSliceError::Content(c1)), Err(err::ip::HeaderReadError::Content(c2))) => {
                        if c1.cerr() != c2.cerr() && !ms {
                            case.fail("read-differs-from-slice:IpHeaders::read:content-error", format!("slice {:?} vs reader {:?}", c1, c2));
                        }
                    }
                    (Err(err::ip::HeadersSliceError::Len(_)), Err(err::ip::HeaderReadError::Len(_))) | (Err(err::ip::HeadersSliceError::Len(_)), Err(err::ip::HeaderReadError::Io(_))) => {
                        // same class of rejection (missing data inside the announced packet); the details are C07's
                        case.reach("read-len-err");
                    }
                    (Err(_), Err(_)) if ms => {}
                    (a, c2) => case.fail("read-differs-from-slice:IpHeaders::read:verdict", format!("slice decoder {:?} vs reader {:?}", a.as_ref().map(|_| "Ok").map_err(|e| e.cerr().class()), c2.as_ref().map(|_| "Ok").map_err(|e| format!("{:?}", e)))),
                }
            }
        }
        Door::Ipv4Exts(n) => {
            if n == 51 {
                rd_pair_c!(case, "IpAuthHeader::read", b, IpAuthHeader, err::ip_auth::HeaderReadError, multi_s);
            }
            case.at("Ipv4Extensions::read");
            let s = Ipv4Extensions::from_slice(IpNumber(n), b);
            let mut c = Cursor::new(b);
            let r = Ipv4Extensions::read(&mut c, IpNumber(n));
            let pos = c.position();
            let eq = match (&s, &r) {
                (Ok((h, n1, _)), Ok((h2, n2))) => h == h2 && n1 == n2,
                _ => false,
            };
            cmp_read(
                "Ipv4Extensions::read",
                case,
                s.as_ref().map(|(_, _, rest)| b.len() - rest.len()).map_err(|e| e.cerr()),
                r.as_ref().map(|_| pos).map_err(|e| match e {
                    err::ip_auth::HeaderReadError::Io(i) => io(i),
                    err::ip_auth::HeaderReadError::Content(c) => RE::Err(c.cerr()),
                }),
                eq,
                multi_s,
            );
        }
        Door::Ipv6Exts(n) => {
            use etherparse::io::LimitedReader;
            match n {
                0 | 43 | 60 => {
                    rd_pair!(case, "Ipv6RawExtHeader::read", b, Ipv6RawExtHeader, multi_s);
                    case.at("Ipv6RawExtHeader::read_limited");
                    let s = Ipv6RawExtHeader::from_slice(b);
                    let mut lr = LimitedReader::new(Cursor::new(b), b.len(), LenSource::Slice, 0, Layer::Ipv6ExtHeader);
                    let r = Ipv6RawExtHeader::read_limited(&mut lr);
                    let pos = lr.take_reader().position();
                    let eq = matches!((&s, &r), (Ok((h, _)), Ok(h2)) if h == h2);
                    cmp_limited("Ipv6RawExtHeader::read_limited", case, s.as_ref().map(|(_, rest)| b.len() - rest.len()).map_err(|e| e.cerr()), r.as_ref().map(|_| pos).map_err(lim), eq, true);
                }
                44 => {
                    rd_pair!(case, "Ipv6FragmentHeader::read", b, Ipv6FragmentHeader, multi_s);
                    case.at("Ipv6FragmentHeader::read_limited");
                    let s = Ipv6FragmentHeader::from_slice(b);
                    let mut lr = LimitedReader::new(Cursor::new(b), b.len(), LenSource::Slice, 0, Layer::Ipv6FragHeader);
                    let r = Ipv6FragmentHeader::read_limited(&mut lr);
                    let pos = lr.take_reader().position();
                    let eq = matches!((&s, &r), (Ok((h, _)), Ok(h2)) if h == h2);
                    cmp_limited("Ipv6FragmentHeader::read_limited", case, s.as_ref().map(|(_, rest)| b.len() - rest.len()).map_err(|e| e.cerr()), r.as_ref().map(|_| pos).map_err(lim), eq, true);
                }
                51 => {
                    rd_pair_c!(case, "IpAuthHeader::read", b, IpAuthHeader, err::ip_auth::HeaderReadError, multi_s);
                    case.at("IpAuthHeader::read_limited");
                    let s = IpAuthHeader::from_slice(b);
                    let mut lr = LimitedReader::new(Cursor::new(b), b.len(), LenSource::Slice, 0, Layer::IpAuthHeader);
                    let r = IpAuthHeader::read_limited(&mut lr);
                    let pos = lr.take_reader().position();
                    let eq = matches!((&s, &r), (Ok((h, _)), Ok(h2)) if h == h2);
                    cmp_limited(
                        "IpAuthHeader::read_limited",
                        case,
                        s.as_ref().map(|(_, rest)| b.len() - rest.len()).map_err(|e| e.cerr()),
                        r.as_ref().map(|_| pos).map_err(|e| match e {
                            err::ip_auth::HeaderLimitedReadError::Io(i) => io(i),
                            err::ip_auth::HeaderLimitedReadError::Len(l) => RE::Err(conv::len_err(l)),
                            err::ip_auth::HeaderLimitedReadError::Content(c) => RE::Err(c.cerr()),
                        }),
                        eq,
                        true,
                    );
                }
                _ => {}
            }
            {
                case.at("Ipv6Extensions::read_limited");
                let s = Ipv6Extensions::from_slice(IpNumber(n), b);
                let mut lr = LimitedReader::new(Cursor::new(b), b.len(), LenSource::Slice, 0, Layer::Ipv6Header);
                let r = Ipv6Extensions::read_limited(&mut lr, IpNumber(n));
                let pos = lr.take_reader().position();
                let eq = matches!((&s, &r), (Ok((h, n1, _)), Ok((h2, n2))) if h == h2 && n1 == n2);
                cmp_limited(
                    "Ipv6Extensions::read_limited",
                    case,
                    s.as_ref().map(|(_, _, rest)| b.len() - rest.len()).map_err(|e| e.cerr()),
                    r.as_ref().map(|_| pos).map_err(|e| match e {
                        err::ipv6_exts::HeaderLimitedReadError::Io(i) => io(i),
                        err::ipv6_exts::HeaderLimitedReadError::Len(l) => RE::Err(conv::len_err(l)),
                        err::ipv6_exts::HeaderLimitedReadError::Content(c) => RE::Err(c.cerr()),
                    }),
                    eq,
                    true,
                );
            }
            // the header-skipping helpers: io::Read + Seek door against the slice door
            {
                case.at("Ipv6Header::skip_header_extension");
                let s = Ipv6Header::skip_header_extension_in_slice(b, IpNumber(n));
                let mut c = Cursor::new(b);
                let r = Ipv6Header::skip_header_extension(&mut c, IpNumber(n));
                let pos = c.position();
                let eq = matches!((&s, &r), (Ok((n1, _)), Ok(n2)) if n1 == n2);
                cmp_read("Ipv6Header::skip_header_extension", case, s.as_ref().map(|(_, rest)| b.len() - rest.len()).map_err(|e| conv::len_err(e)), r.as_ref().map(|_| pos).map_err(io), eq, true);
                case.at("Ipv6Header::skip_all_header_extensions");
                let s = Ipv6Header::skip_all_header_extensions_in_slice(b, IpNumber(n));
                let mut c = Cursor::new(b);
                let r = Ipv6Header::skip_all_header_extensions(&mut c, IpNumber(n));
                let pos = c.position();
                let eq = matches!((&s, &r), (Ok((n1, _)), Ok(n2)) if n1 == n2);
                cmp_read("Ipv6Header::skip_all_header_extensions", case, s.as_ref().map(|(_, rest)| b.len() - rest.len()).map_err(|e| conv::len_err(e)), r.as_ref().map(|_| pos).map_err(io), eq, true);
            }
            case.at("Ipv6Extensions::read");
            let s = Ipv6Extensions::from_slice(IpNumber(n), b);
            let mut c = Cursor::new(b);
            let r = Ipv6Extensions::read(&mut c, IpNumber(n));
            let pos = c.position();
            let eq = match (&s, &r) {
                (Ok((h, n1, _)), Ok((h2, n2))) => h == h2 && n1 == n2,
                _ => false,
            };
            let m = refdec::decode_opts(door, b, false, true).stop.map(|s| s.faults.len() > 1).unwrap_or(false);
            cmp_read(
                "Ipv6Extensions::read",
                case,
                s.as_ref().map(|(_, _, rest)| b.len() - rest.len()).map_err(|e| e.cerr()),
                r.as_ref().map(|_| pos).map_err(|e| match e {
                    err::ipv6_exts::HeaderReadError::Io(i) => io(i),
                    err::ipv6_exts::HeaderReadError::Content(c) => RE::Err(c.cerr()),
                }),
                eq,
                m,
            );
        }
        Door::Transport(n) => match n {
            17 => rd_pair!(case, "UdpHeader::read", b, UdpHeader, multi_s),
            6 => rd_pair_c!(case, "TcpHeader::read", b, TcpHeader, err::tcp::HeaderReadError, multi_s),
            1 => {
                // the timestamp rule depends on the total slice length: compare on the slice that ends with the header
                case.at("Icmpv4Header::read");
                let s0 = Icmpv4Header::from_slice(b);
                let hb: &[u8] = match &s0 {
                    Ok((_, rest)) => &b[..b.len() - rest.len()],
                    // timestamp (reply) with data behind its 20 bytes: the slice that ends with the header
                    Err(_) if b.len() > 20 && (b[0] == 13 || b[0] == 14) && b[1] == 0 => &b[..20],
                    Err(_) => b,
                };
                let s = Icmpv4Header::from_slice(hb);
                let mut c = Cursor::new(hb);
                let r = Icmpv4Header::read(&mut c);
                let pos = c.position();
                let eq = match (&s, &r) {
                    (Ok((h, _)), Ok(h2)) => h == h2,
                    _ => false,
                };
                cmp_read("Icmpv4Header::read", case, s.as_ref().map(|(_, rest)| hb.len() - rest.len()).map_err(|e| e.cerr()), r.as_ref().map(|_| pos).map_err(io), eq, true);
            }
            58 => rd_pair!(case, "Icmpv6Header::read", b, Icmpv6Header, multi_s),
            _ => {}
        },
        Door::TcpOpts | Door::NdpOpts => {}
    }
}

fn iph_pair(api: &'static str, case: &mut Case, b: &[u8], a: Result<(IpHeaders, IpPayloadSlice), CErr>, c: Result<(IpHeaders, IpPayloadSlice), CErr>, multi: bool) {
    case.eval();
    case.eval();
    match (a, c) {
        (Ok((h1, p1)), Ok((h2, p2))) => {
            if h1 != h2 || p1.ip_number != p2.ip_number || p1.fragmented != p2.fragmented || p1.len_source != p2.len_source || rel(b, p1.payload) != rel(b, p2.payload) {
                case.fail(format!("results-differ:{}", api), format!("{}: {:?}/{:?} vs sibling {:?}/{:?}", api, h1, p1, h2, p2));
            }
        }
        (Err(e1), Err(e2)) => cmp_err(api, case, &e1, &e2, multi),
        (Ok(_), Err(e)) => case.fail(format!("verdict-differs:{}:ok-vs-err:{}", api, e.class()), format!("{}: Ok vs sibling Err({:?})", api, e)),
        (Err(e), Ok(_)) => case.fail(format!("verdict-differs:{}:err-vs-ok:{}", api, e.class()), format!("{}: Err({:?}) vs sibling Ok", api, e)),
    }
}

#[allow(clippy::type_complexity)]
fn iph_lax_pair(api: &'static str, case: &mut Case, b: &[u8], a: Result<(IpHeaders, LaxIpPayloadSlice, LaxStop), CErr>, c: Result<(IpHeaders, LaxIpPayloadSlice, LaxStop), CErr>, multi: bool) {
    case.eval();
    case.eval();
    match (a, c) {
        (Ok((h1, p1, s1)), Ok((h2, p2, s2))) => {
            if h1 != h2 || p1.ip_number != p2.ip_number || p1.fragmented != p2.fragmented || p1.len_source != p2.len_source || p1.incomplete != p2.incomplete || rel(b, p1.payload) != rel(b, p2.payload) {
                case.fail(format!("results-differ:{}", api), format!("{}: {:?}/{:?} vs sibling {:?}/{:?}", api, h1, p1, h2, p2));
            }
            match (s1, s2) {
                (None, None) => {}
                (Some((e1, l1)), Some((e2, l2))) => {
                    if l1 != l2 {
                        case.fail(format!("stop-layer-differs:{}", api), format!("{}: {:?} vs sibling {:?}", api, l1, l2));
                    }
                    cmp_err(api, case, &e1, &e2, multi);
                }
                (x, y) => case.fail(format!("stop-differs:{}", api), format!("{}: stop {:?} vs sibling {:?}", api, x, y)),
            }
        }
        (Err(e1), Err(e2)) => cmp_err(api, case, &e1, &e2, multi),
        (Ok(_), Err(e)) => case.fail(format!("verdict-differs:{}:ok-vs-err:{}", api, e.class()), format!("{}: Ok vs sibling Err({:?})", api, e)),
        (Err(e), Ok(_)) => case.fail(format!("verdict-differs:{}:err-vs-ok:{}", api, e.class()), format!("{}: Err({:?}) vs sibling Ok", api, e)),
    }
}

impl Check for C06 {
    fn id(&self) -> &'static str {
        "C06"
    }
    fn rule(&self, tier: Tier) -> String {
        format!(
            "alphabet/bound: {}. Each case = (door, byte string) is decoded through every pair of equivalent entry points of its door: the 12 IP boundary implementations in 4 pair groups (by version nibble), from_ethernet ~ from_ether_type(type, bytes[14..]) and from_linux_sll ~ from_ether_type(protocol, bytes[16..]) for all 4 whole-packet families (error offsets shifted), from_ether_type(0x0800|0x86DD) ~ from_ip, and read(Cursor) ~ from_slice for the 17 header types with a reader (plus the 4 read_limited and 2 read_without_version variants) (Ethernet2, SLL, VLAN, MACsec, ARP, IPv4, IPv6, AH, raw ext, fragment, UDP, TCP, ICMPv4, ICMPv6, IpHeaders, Ipv4Extensions, Ipv6Extensions). \
             oracle (differential): equal layers/ranges/fields resp. equal header structs and payload ranges, equal errors after mapping to a common normal form, cursor position == header length, slice length error <=> reader UnexpectedEof, equal content errors; when one header carries two faults the siblings may name either. \
             distinct = distinct (door, bytes); non-trivial = at least 8 bytes.",
            sweep::describe_bounds(tier)
        )
    }
    fn assumptions(&self, _tier: Tier) -> Vec<String> {
        vec![
            "IpHeaders::read is compared on slices that hold the announced packet (length field <= slice, IPv6 payload length != 0): a reader cannot see the end of the data".into(),
            "ICMPv4 is compared on slices that end with the header (timestamp rule depends on the total length); IGMP has no reader".into(),
        ]
    }
    fn units(&self, tier: Tier) -> u64 {
        sweep::units(tier)
    }
    fn dedup_bits(&self, tier: Tier) -> u32 {
        if tier.is_thorough() {
            30
        } else {
            26
        }
    }
    fn expect_reach(&self, _tier: Tier) -> Vec<String> {
        ["pair:ethernet~ether_type", "pair:sll~ether_type", "pair:ether_type~ip", "pair:ip~ipv4", "pair:ip~ipv6", "read-ok", "read-eof", "read-content-err", "read-len-err", "limited-ok", "limited-len-err"]
            .iter()
            .map(|s| s.to_string())
            // every reader door must have been compared on at least one header that both doors accept
            .chain(
                [
                    "ArpPacket::read", "Ethernet2Header::read", "Icmpv4Header::read", "Icmpv6Header::read", "IpAuthHeader::read", "IpAuthHeader::read_limited", "Ipv4Extensions::read", "Ipv4Header::read",
                    "Ipv6Extensions::read", "Ipv6Extensions::read_limited", "Ipv6FragmentHeader::read", "Ipv6FragmentHeader::read_limited", "Ipv6Header::read", "Ipv6Header::skip_all_header_extensions",
                    "Ipv6Header::skip_header_extension", "Ipv6RawExtHeader::read", "Ipv6RawExtHeader::read_limited", "LinuxSllHeader::read", "MacsecHeader::read", "SingleVlanHeader::read", "TcpHeader::read", "UdpHeader::read",
                ]
                .iter()
                .map(|s| format!("read-ok:{}", s)),
            )
            .collect()
    }
    fn run_unit(&self, tier: Tier, u: u64, ctx: &mut Ctx) {
        sweep::run_unit(tier, u, ctx, &|door, bytes, _shape, case| check_case(door, bytes, case));
    }
}
