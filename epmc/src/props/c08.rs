//! C08 — every header value survives encode -> decode unchanged; every accepted byte string
//! survives decode -> encode up to reserved / normalised bits.
//!
//! (A) value -> bytes -> value: for each of the 25 serialisable types (+ `DoubleVlanHeader`) the bounded
//!     value space described in DESIGN.md "### C08" is enumerated (full product of the per-field alphabets
//!     when small enough, otherwise every vector within k fields of three backgrounds). Oracle: all
//!     serialisers give exactly the bytes of an independent field-by-field big-endian reference encoder
//!     (`c08/refenc.rs`, transcribed from the RFC diagrams) and exactly `header_len()` bytes; every decoder
//!     returns an equal value and consumes everything.
//! (B) bytes -> value -> bytes: base encodings taken from (A), all 1-bit flips and the 2-bit flips of a
//!     leading window; whatever the decoder accepts must re-encode to the consumed bytes outside the
//!     reserved-bit masks of `refenc.rs`, and decoding the re-encoded bytes must give the same value.
//! (C) "stale bytes after shrinking": every variable part set large-then-small through the setters.

use crate::fw::*;
use std::sync::OnceLock;

mod engine;
mod refenc;
mod stale;
mod t_exts;
mod t_icmp;
mod t_link;
mod t_net;
mod t_tp;
mod ty;

use engine::*;
use ty::Ty;

pub struct C08;

/// (index, adapter) table; the 25 types of the property plus DoubleVlanHeader and the raw view of TcpOptions;
/// IpHeaders has one adapter per IP version
macro_rules! dispatch {
    ($i:expr, $T:ident => $e:expr) => {
        match $i {
            0 => { type $T = t_link::Eth; $e }
            1 => { type $T = t_link::Sll; $e }
            2 => { type $T = t_link::Vlan; $e }
            3 => { type $T = t_link::DVlan; $e }
            4 => { type $T = t_link::Macsec; $e }
            5 => { type $T = t_net::Arp; $e }
            6 => { type $T = t_net::ArpEth; $e }
            7 => { type $T = t_net::V4H; $e }
            8 => { type $T = t_net::V4O; $e }
            9 => { type $T = t_net::V6H; $e }
            10 => { type $T = t_net::Ah; $e }
            11 => { type $T = t_net::RawExt; $e }
            12 => { type $T = t_net::Frag; $e }
            13 => { type $T = t_exts::Ext4; $e }
            14 => { type $T = t_exts::Ext6; $e }
            15 => { type $T = t_exts::Ip4; $e }
            16 => { type $T = t_exts::Ip6; $e }
            17 => { type $T = t_tp::Udp; $e }
            18 => { type $T = t_tp::TcpH; $e }
            19 => { type $T = t_tp::TcpO; $e }
            20 => { type $T = t_tp::TcpORaw; $e }
            21 => { type $T = t_icmp::I4H; $e }
            22 => { type $T = t_icmp::I4T; $e }
            23 => { type $T = t_icmp::I6H; $e }
            24 => { type $T = t_icmp::I6T; $e }
            25 => { type $T = t_icmp::Igmp; $e }
            26 => { type $T = t_icmp::GroupRec; $e }
            27 => { type $T = t_icmp::Prefix; $e }
            _ => unreachable!(),
        }
    };
}
const N_TYPES: usize = 28;

/// the 25 serialisable types of the property (reach keys)
pub const TYPES_25: [&str; 25] = [
    "Ethernet2Header",
    "LinuxSllHeader",
    "SingleVlanHeader",
    "MacsecHeader",
    "ArpPacket",
    "ArpEthIpv4Packet",
    "Ipv4Header",
    "Ipv4Options",
    "Ipv6Header",
    "IpAuthHeader",
    "Ipv6RawExtHeader",
    "Ipv6FragmentHeader",
    "Ipv4Extensions",
    "Ipv6Extensions",
    "IpHeaders",
    "UdpHeader",
    "TcpHeader",
    "TcpOptions",
    "Icmpv4Header",
    "Icmpv4Type",
    "Icmpv6Header",
    "Icmpv6Type",
    "IgmpHeader",
    "ReportGroupRecordV3Header",
    "PrefixInformation",
];

#[derive(Clone, Debug)]
enum Job {
    A { ty: usize, part: u64, parts: u64 },
    B { ty: usize, base: usize },
    Stale(usize),
}

struct Plan {
    jobs: Vec<Job>,
    /// per type: (name, #sub-spaces, modes, enumerated index vectors, #bases)
    summary: Vec<(String, usize, String, u64, usize)>,
}

fn type_info<T: Ty>(th: bool) -> (String, usize, String, u64, usize, u64) {
    let sps = spaces::<T>(th);
    let count: u64 = sps.iter().map(|s| s.count).sum();
    let mut modes: Vec<String> = sps.iter().map(|s| format!("{:?}", s.mode)).collect();
    modes.sort();
    modes.dedup();
    (T::NAME.to_string(), sps.len(), modes.join("/"), count, bases::<T>(th).len(), T::HEAVY)
}

fn make_plan(tier: Tier) -> Plan {
    let th = tier.is_thorough();
    let per_unit: u64 = if th { 400_000 } else { 60_000 };
    let max_parts: u64 = if th { 128 } else { 24 };
    let mut jobs = vec![];
    let mut summary = vec![];
    for ty in 0..N_TYPES {
        let (name, nsp, modes, count, nbases, heavy) = dispatch!(ty, T => type_info::<T>(th));
        let parts = (count.saturating_mul(heavy) / per_unit).clamp(1, max_parts);
        for part in 0..parts {
            jobs.push(Job::A { ty, part, parts });
        }
        for base in 0..nbases {
            jobs.push(Job::B { ty, base });
        }
        summary.push((name, nsp, modes, count, nbases));
    }
    for k in 0..stale::N_UNITS {
        jobs.push(Job::Stale(k));
    }
    // long jobs first: thorough B jobs of long bases and the heavy A jobs are spread by the dynamic scheduler anyway
    Plan { jobs, summary }
}

fn plan(tier: Tier) -> &'static Plan {
    static Q: OnceLock<Plan> = OnceLock::new();
    static T: OnceLock<Plan> = OnceLock::new();
    if tier.is_thorough() {
        T.get_or_init(|| make_plan(tier))
    } else {
        Q.get_or_init(|| make_plan(tier))
    }
}

impl Check for C08 {
    fn quick_is_thorough(&self) -> bool {
        true
    }
    fn id(&self) -> &'static str {
        "C08"
    }
    fn rule(&self, tier: Tier) -> String {
        let th = tier.is_thorough();
        format!(
            "(A) value->bytes->value over the 25 serialisable types (+DoubleVlanHeader, +raw view of TcpOptions). per-field alphabet: {{min, min+1, mid pattern 0x5A5B.. with distinct bytes, max-1, max}}{}; booleans both; \
             typed enums every variant; ICMPv4/ICMPv6/IGMP one sub-space per typed message kind and per Unknown (type,code) next to a typed one (only numbers without a typed variant are built as Unknown); \
             variable parts: IPv4/TCP options 0,4,..,40 bytes, TCP option element lists of up to {} elements from 15 element values (all that fit 40 bytes), raw TCP options 0..=40 bytes, AH ICV 0,4,8,12,1012,1016, \
             extension payload 6,14,22,2038,2046, ARP hlen/plen in {{0,1,4,6,16,255}}^2, MACsec 4 ptypes x SCI x all 64 short lengths, every order of IPv6 extension headers Ipv6Extensions can hold x 4 size variants x 13 final protocol numbers. \
             full product of the alphabets when <= {}/weight vectors, else every vector within k fields (k >= 2, largest that fits) of the backgrounds all-min / all-max / mixed. \
             well-formed = typed variant wherever the number has one, lengths/next-header chain/IPv4 total_len+checksum in IpHeaders consistent, MACsec unmodified short_len != 1. \
             oracle: to_bytes/write/write_raw/write_to_slice == independent reference encoding (BitW, RFC diagrams) and == header_len() bytes; IPv4 write == reference with the RFC 1071 checksum; with_checksum/update_checksum == RFC 1071 over the reference; \
             from_slice/read/from_bytes/*Slice::to_header return an equal value and consume all bytes. \
             (B) bytes->value->bytes: per type the encodings of the three backgrounds plus hand-picked layouts; every 1-bit flip and every 2-bit flip within the first {} bytes; accepted strings must re-encode to the consumed bytes outside the reserved-bit masks (refenc.rs mask_*) and decode again to the same value. \
             (C) stale bytes: every variable part set from every size to every size (AH ICV and raw extension payload: every history size -> size -> size) via set_raw_icv/set_payload/set_options/set_options_raw/options=/set_hw_addrs/set_protocol_addrs/field assignment, result == directly constructed value in bytes and ==. \
             a state = one well-formed value (A), one mutated byte string (B), one (setter, first size, second size, content) tuple (C); distinct by construction (vectors near two backgrounds are visited once); non-trivial = differs from the all-min value (A), accepted by the decoder (B).",
            if th { " plus every single one bit and every single zero bit of the field (VLAN id, fragment offset, IGMPv3 byte 8: every value)" } else { " (12/13-bit fields and the traffic class additionally every single one/zero bit)" },
            if th { 5 } else { 4 },
            if th { THOROUGH_LIMIT } else { QUICK_LIMIT },
            if th { 64 } else { 8 },
        )
    }
    fn assumptions(&self, _tier: Tier) -> Vec<String> {
        vec![
            "reference encoders and reserved-bit masks are transcribed from RFC 768/791/792/826/1191/2236/3376/4302/4443/4861/8200/9293, IEEE 802.1Q/802.1AE and the LINKTYPE_LINUX_SLL description".into(),
            "values outside the alphabets (interior values of wide fields, > k simultaneous deviations for IPv4/TCP/IpHeaders) and > 2-bit mutations are not covered".into(),
            "Ipv4Extensions/Ipv6Extensions are decoded relative to a start protocol number; it is carried as a context byte in front of the byte string".into(),
            "(B) uses from_slice (or the type's only decoder) to decide acceptance; the other decoders are only run on accepted strings".into(),
        ]
    }
    fn units(&self, tier: Tier) -> u64 {
        plan(tier).jobs.len() as u64
    }
    fn expect_reach(&self, _tier: Tier) -> Vec<String> {
        let mut v = vec![];
        for t in TYPES_25 {
            v.push(format!("A:{}", t));
            v.push(format!("B:{}", t));
        }
        v.push("A:DoubleVlanHeader".into());
        v.push("stale-shrink".into());
        v.push("max-variable-part".into());
        v
    }
    fn coverage_extra(&self, tier: Tier) -> Vec<(String, String)> {
        let p = plan(tier);
        let mut s = String::new();
        for (name, nsp, modes, count, nb) in &p.summary {
            s.push_str(&format!("{}: {} sub-space(s) {} {} vectors, {} bases; ", name, nsp, modes, count, nb));
        }
        vec![("value_spaces".into(), s)]
    }
    fn run_unit(&self, tier: Tier, u: u64, ctx: &mut Ctx) {
        match plan(tier).jobs[u as usize].clone() {
            Job::A { ty, part, parts } => dispatch!(ty, T => run_a::<T>(tier, part, parts, ctx)),
            Job::B { ty, base } => dispatch!(ty, T => run_b::<T>(tier, base, ctx)),
            Job::Stale(k) => stale::run(tier, k, ctx),
        }
    }
}
