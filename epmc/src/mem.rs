//! E5: guard-page arena. Input bytes are placed flush against a PROT_NONE page (after or
//! before them) so that an out-of-bounds read by even one byte faults, or in the middle of a
//! poisoned buffer so that an over-read that stays in mapped memory changes the observation.

pub const PAGE: usize = 4096;

/// number of PROT_NONE pages on each side of the data area: 17 pages = 68 KiB, more than any offset a
/// 16-bit length field can produce, so that a far over-read cannot jump over the guard zone
pub const GUARD_PAGES: usize = 17;

pub struct Arena {
    base: *mut u8,
    data_pages: usize,
}
unsafe impl Send for Arena {}

impl Arena {
    /// `[guard zone][data_pages readable+writable][guard zone]`
    pub fn new(data_pages: usize) -> Arena {
        unsafe {
            let total = (data_pages + 2 * GUARD_PAGES) * PAGE;
            let p = libc::mmap(
                std::ptr::null_mut(),
                total,
                libc::PROT_NONE,
                libc::MAP_PRIVATE | libc::MAP_ANONYMOUS,
                -1,
                0,
            );
            assert!(p != libc::MAP_FAILED, "mmap arena");
            let base = p as *mut u8;
            let r = libc::mprotect(
                base.add(GUARD_PAGES * PAGE) as *mut libc::c_void,
                data_pages * PAGE,
                libc::PROT_READ | libc::PROT_WRITE,
            );
            assert_eq!(r, 0, "mprotect arena");
            Arena { base, data_pages }
        }
    }
    pub fn capacity(&self) -> usize {
        self.data_pages * PAGE
    }
    fn data(&self) -> *mut u8 {
        unsafe { self.base.add(GUARD_PAGES * PAGE) }
    }
    /// fill the bytes next to where an input of `len` bytes is going to be placed (both placements)
    pub fn poison_neighbours(&self, len: usize, v: u8) {
        unsafe {
            let n = (len + 256).min(self.capacity());
            std::ptr::write_bytes(self.data(), v, n);
            std::ptr::write_bytes(self.data().add(self.capacity() - n), v, n);
        }
    }
    pub fn fill(&self, v: u8) {
        unsafe { std::ptr::write_bytes(self.data(), v, self.capacity()) }
    }
    /// bytes end exactly where the trailing guard page starts
    pub fn place_end(&self, b: &[u8]) -> &[u8] {
        assert!(b.len() <= self.capacity());
        unsafe {
            let p = self.data().add(self.capacity() - b.len());
            std::ptr::copy_nonoverlapping(b.as_ptr(), p, b.len());
            std::slice::from_raw_parts(p, b.len())
        }
    }
    /// bytes start exactly where the leading guard page ends
    pub fn place_start(&self, b: &[u8]) -> &[u8] {
        assert!(b.len() <= self.capacity());
        unsafe {
            let p = self.data();
            std::ptr::copy_nonoverlapping(b.as_ptr(), p, b.len());
            std::slice::from_raw_parts(p, b.len())
        }
    }
    /// bytes at `PAGE + off` inside the arena, everything around them filled with `fill`
    pub fn place_mid(&self, b: &[u8], off: usize, fill: u8) -> &[u8] {
        assert!(PAGE + off + b.len() + 64 <= self.capacity());
        unsafe {
            let lo = PAGE + off - 64.min(PAGE + off);
            let hi = (PAGE + off + b.len() + 2048).min(self.capacity());
            std::ptr::write_bytes(self.data().add(lo), fill, hi - lo);
            let p = self.data().add(PAGE + off);
            std::ptr::copy_nonoverlapping(b.as_ptr(), p, b.len());
            std::slice::from_raw_parts(p, b.len())
        }
    }
    /// mutable output slice of `len` bytes that ends at the trailing guard page
    #[allow(clippy::mut_from_ref)]
    pub fn out_end(&self, len: usize, fill: u8) -> &mut [u8] {
        assert!(len <= self.capacity());
        unsafe {
            let p = self.data().add(self.capacity() - len);
            std::ptr::write_bytes(p, fill, len);
            std::slice::from_raw_parts_mut(p, len)
        }
    }
}

impl Drop for Arena {
    fn drop(&mut self) {
        unsafe {
            libc::munmap(self.base as *mut libc::c_void, (self.data_pages + 2 * GUARD_PAGES) * PAGE);
        }
    }
}

/// `(offset, len)` of `sub` relative to `outer`, or an error text if it is not contained
pub fn rel(outer: &[u8], sub: &[u8]) -> Result<(usize, usize), String> {
    let o = outer.as_ptr() as usize;
    let s = sub.as_ptr() as usize;
    if sub.is_empty() {
        // an empty slice may point anywhere from start to one-past-the-end
        if s >= o && s <= o + outer.len() {
            return Ok((s - o, 0));
        }
        // an empty slice touches no memory; `&[]` constants (PayloadSlice::Empty) legitimately live elsewhere
        return Ok((0, 0));
    }
    if s < o || s + sub.len() > o + outer.len() {
        return Err(format!(
            "sub-slice [{:+}, {:+}) outside of the input [0, {})",
            s as i128 - o as i128,
            s as i128 - o as i128 + sub.len() as i128,
            outer.len()
        ));
    }
    Ok((s - o, sub.len()))
}
