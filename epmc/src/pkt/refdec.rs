//! Reference decoder (DESIGN.md 3.3): safe Rust, checked indexing only, written from the
//! wire formats and from the rules the crate documents. Never calls etherparse.
//!
//! `decode(door, bytes, lax)` returns the layer sequence the formats prescribe for the bytes,
//! with header/payload ranges, field values, the set of length sources that explain each
//! payload end, and — if decoding has to stop on a fault — the faulty layer, its true offset,
//! the bytes really available to it and the *set of all faults* present in it.

use crate::pkt::gen::Door;

#[derive(Clone, Copy, PartialEq, Eq, Debug, Hash, PartialOrd, Ord)]
pub enum RK {
    Eth2,
    Sll,
    Vlan,
    Macsec,
    Arp,
    Ipv4,
    Ah,
    Ipv6,
    Hbh,
    Dest,
    Routing,
    Frag,
    Udp,
    Tcp,
    Icmpv4,
    Icmpv6,
}

#[derive(Clone, Copy, PartialEq, Eq, Debug, Hash, PartialOrd, Ord)]
pub enum Src {
    Slice,
    MacsecSl,
    Ipv4Total,
    Ipv6Plen,
    UdpLen,
    TcpLen,
    ArpAddr,
}

#[derive(Clone, PartialEq, Eq, Debug)]
pub enum Fault {
    /// the layer needs `need` bytes (fixed part, or full header once its length byte is readable) but fewer are available
    Short { need: usize },
    /// a length field of the layer claims `need` bytes from the layer start, more than available
    FieldAboveData { src: Src, need: usize },
    /// a length field is smaller than the layer's own header
    FieldBelowHeader { src: Src, value: usize, hdr: usize },
    /// more data than the layer admits (ICMPv4 timestamp: exactly 20 bytes)
    Oversize { max: usize },
    /// a documented content rule is violated; the offending value as present in the bytes
    Content(&'static str, u64),
}

#[derive(Clone, Copy, PartialEq, Eq, Debug)]
pub enum Next {
    Ether(u16),
    Ip(u8),
    /// SLL protocol field that is not an ether type (netlink, GRE, ignored, Linux pseudo protocol)
    SllOther,
    MacsecModified,
    None,
}

#[derive(Clone, Debug, PartialEq, Eq)]
pub struct RLayer {
    pub kind: RK,
    pub off: usize,
    pub hlen: usize,
    /// payload as handed out by this layer
    pub pay: (usize, usize),
    pub fields: Vec<(&'static str, u128)>,
    pub ranges: Vec<(&'static str, usize, usize)>,
    /// length sources that explain where the payload ends
    pub pay_srcs: Vec<Src>,
    /// lax only: the layer's own length field promised more than the slice holds
    pub incomplete: bool,
    /// IP layers: payload is a fragment (IPv4: this header; IPv6: any fragment header so far)
    pub fragmented: bool,
    pub next: Next,
}

#[derive(Clone, Debug, PartialEq, Eq)]
pub struct RStop {
    pub kind: RK,
    /// true when the door is version dispatching and the version nibble decides nothing (IP door: unknown version / empty)
    pub ip_generic: bool,
    pub off: usize,
    pub avail: usize,
    /// non-slice length fields in front of the layer whose implied end is exactly the end of `avail`
    pub avail_srcs: Vec<Src>,
    pub faults: Vec<Fault>,
    /// the fault sits in the very first header of the door
    pub first: bool,
}

#[derive(Clone, Debug, Default)]
pub struct RefResult {
    pub layers: Vec<RLayer>,
    pub stop: Option<RStop>,
    /// lax: payload handed out behind a stop (offset,len) and the selector that names it
    pub stop_payload: Option<(usize, usize)>,
}

impl RefResult {
    pub fn link(&self) -> Option<&RLayer> {
        self.layers.iter().find(|l| matches!(l.kind, RK::Eth2 | RK::Sll))
    }
    pub fn exts(&self) -> Vec<&RLayer> {
        self.layers.iter().filter(|l| matches!(l.kind, RK::Vlan | RK::Macsec)).collect()
    }
    pub fn net(&self) -> Option<&RLayer> {
        self.layers.iter().find(|l| matches!(l.kind, RK::Arp | RK::Ipv4 | RK::Ipv6))
    }
    pub fn ip_exts(&self) -> Vec<&RLayer> {
        self.layers.iter().filter(|l| matches!(l.kind, RK::Ah | RK::Hbh | RK::Dest | RK::Routing | RK::Frag)).collect()
    }
    pub fn transport(&self) -> Option<&RLayer> {
        self.layers.iter().find(|l| matches!(l.kind, RK::Udp | RK::Tcp | RK::Icmpv4 | RK::Icmpv6))
    }
    pub fn shape(&self) -> String {
        let mut s = String::new();
        for l in &self.layers {
            s.push_str(&format!("{:?}>", l.kind));
        }
        match &self.stop {
            None => s.push_str("ok"),
            Some(st) => s.push_str(&format!("stop@{:?}:{}", st.kind, st.faults.iter().map(fault_class).collect::<Vec<_>>().join("+"))),
        }
        s
    }
}

pub fn fault_class(f: &Fault) -> String {
    match f {
        Fault::Short { .. } => "short".into(),
        Fault::FieldAboveData { src, .. } => format!("{:?}>data", src),
        Fault::FieldBelowHeader { src, .. } => format!("{:?}<hdr", src),
        Fault::Oversize { .. } => "oversize".into(),
        Fault::Content(n, _) => format!("content:{}", n),
    }
}

// ------------------------------------------------------------------------------------------

fn be16(b: &[u8], o: usize) -> u64 {
    ((b[o] as u64) << 8) | b[o + 1] as u64
}
fn be32(b: &[u8], o: usize) -> u64 {
    (be16(b, o) << 16) | be16(b, o + 2)
}
fn be_n(b: &[u8], o: usize, n: usize) -> u128 {
    let mut v = 0u128;
    for i in 0..n {
        v = (v << 8) | b[o + i] as u128;
    }
    v
}

/// the 28 Linux pseudo protocol numbers of if_ether.h that are not ether types
pub fn linux_nonstandard(p: u16) -> bool {
    matches!(p, 0x0001..=0x0009 | 0x000C..=0x000E | 0x0010 | 0x0011 | 0x0015..=0x001C | 0x00F5..=0x00FA)
}
pub fn sll_arphrd_supported(h: u16) -> bool {
    matches!(h, 1 | 770 | 778 | 803 | 824)
}

/// which extension header slots of the fixed `Ipv6Extensions` struct are taken (struct decoding only)
#[derive(Default, Clone, Copy)]
struct Slots {
    dest: bool,
    routing: bool,
    final_dest: bool,
    frag: bool,
    auth: bool,
}
impl Slots {
    /// documented exception of struct decoding: a header kind that no longer fits ends the chain
    fn take(&mut self, n: u8) -> bool {
        let slot: &mut bool = match n {
            60 => {
                if self.routing {
                    &mut self.final_dest
                } else {
                    &mut self.dest
                }
            }
            43 => &mut self.routing,
            44 => &mut self.frag,
            51 => &mut self.auth,
            _ => return true,
        };
        if *slot {
            false
        } else {
            *slot = true;
            true
        }
    }
}

struct W<'a> {
    b: &'a [u8],
    lax: bool,
    /// decode like the fixed header structs: stop the IPv6 extension chain at the first header kind that does not fit
    struct_mode: bool,
    pos: usize,
    end: usize,
    /// enclosing length fields and the absolute end they imply
    lims: Vec<(Src, usize)>,
    out: RefResult,
    nlayers_at_door: usize,
}

impl<'a> W<'a> {
    fn avail(&self) -> usize {
        self.end - self.pos
    }
    fn srcs_for_end(&self, end: usize) -> Vec<Src> {
        let mut v: Vec<Src> = self.lims.iter().filter(|(_, e)| *e == end).map(|(s, _)| *s).collect();
        if end == self.b.len() {
            v.push(Src::Slice);
        }
        v
    }
    fn stop(&mut self, kind: RK, faults: Vec<Fault>) {
        let end = self.end;
        let avail_srcs: Vec<Src> = self.lims.iter().filter(|(_, e)| *e == end).map(|(s, _)| *s).collect();
        let first = self.out.layers.len() == self.nlayers_at_door;
        self.out.stop = Some(RStop { kind, ip_generic: false, off: self.pos, avail: self.avail(), avail_srcs, faults, first });
        self.out.stop_payload = Some((self.pos, self.avail()));
    }
    fn limit(&mut self, src: Src, end: usize) {
        self.end = end;
        self.lims.push((src, end));
    }

    // ---- link ----------------------------------------------------------------------------
    fn eth2(&mut self) -> Next {
        let (b, p) = (self.b, self.pos);
        if self.avail() < 14 {
            self.stop(RK::Eth2, vec![Fault::Short { need: 14 }]);
            return Next::None;
        }
        let et = be16(b, p + 12) as u16;
        let l = RLayer {
            kind: RK::Eth2,
            off: p,
            hlen: 14,
            pay: (p + 14, self.end - p - 14),
            fields: vec![("dst", be_n(b, p, 6)), ("src", be_n(b, p + 6, 6)), ("ether_type", et as u128)],
            ranges: vec![],
            pay_srcs: self.srcs_for_end(self.end),
            incomplete: false,
            fragmented: false,
            next: Next::Ether(et),
        };
        self.out.layers.push(l);
        self.pos += 14;
        Next::Ether(et)
    }
    fn sll(&mut self) -> Next {
        let (b, p) = (self.b, self.pos);
        if self.avail() < 16 {
            self.stop(RK::Sll, vec![Fault::Short { need: 16 }]);
            return Next::None;
        }
        let ptype = be16(b, p) as u16;
        let hrd = be16(b, p + 2) as u16;
        let alen = be16(b, p + 4) as u16;
        let proto = be16(b, p + 14) as u16;
        let mut faults = vec![];
        if ptype > 7 {
            faults.push(Fault::Content("sll.packet_type", ptype as u64));
        }
        if !sll_arphrd_supported(hrd) {
            faults.push(Fault::Content("sll.arphrd", hrd as u64));
        }
        if !faults.is_empty() {
            self.stop(RK::Sll, faults);
            return Next::None;
        }
        let next = if hrd == 1 && !linux_nonstandard(proto) { Next::Ether(proto) } else { Next::SllOther };
        let l = RLayer {
            kind: RK::Sll,
            off: p,
            hlen: 16,
            pay: (p + 16, self.end - p - 16),
            fields: vec![("packet_type", ptype as u128), ("arphrd", hrd as u128), ("addr_len", alen as u128), ("addr", be_n(b, p + 6, 8)), ("protocol", proto as u128)],
            ranges: vec![("addr_valid", p + 6, (alen as usize).min(8))],
            pay_srcs: self.srcs_for_end(self.end),
            incomplete: false,
            fragmented: false,
            next,
        };
        self.out.layers.push(l);
        self.pos += 16;
        next
    }
    fn vlan(&mut self) -> Next {
        let (b, p) = (self.b, self.pos);
        if self.avail() < 4 {
            self.stop(RK::Vlan, vec![Fault::Short { need: 4 }]);
            return Next::None;
        }
        let tci = be16(b, p);
        let et = be16(b, p + 2) as u16;
        let l = RLayer {
            kind: RK::Vlan,
            off: p,
            hlen: 4,
            pay: (p + 4, self.end - p - 4),
            fields: vec![("pcp", (tci >> 13) as u128), ("dei", ((tci >> 12) & 1) as u128), ("vid", (tci & 0xfff) as u128), ("ether_type", et as u128)],
            ranges: vec![],
            pay_srcs: self.srcs_for_end(self.end),
            incomplete: false,
            fragmented: false,
            next: Next::Ether(et),
        };
        self.out.layers.push(l);
        self.pos += 4;
        Next::Ether(et)
    }
    fn macsec(&mut self) -> Next {
        let (b, p) = (self.b, self.pos);
        let avail = self.avail();
        if avail < 6 {
            self.stop(RK::Macsec, vec![Fault::Short { need: 6 }]);
            return Next::None;
        }
        let tci = b[p];
        let sl = (b[p + 1] & 0x3f) as usize;
        let ver = tci & 0x80 != 0;
        let es = tci & 0x40 != 0;
        let sc = tci & 0x20 != 0;
        let scb = tci & 0x10 != 0;
        let e = tci & 0x08 != 0;
        let c = tci & 0x04 != 0;
        let an = tci & 3;
        let unmodified = !e && !c;
        let hdr = 6 + if sc { 8 } else { 0 } + if unmodified { 2 } else { 0 };
        let mut faults = vec![];
        if ver {
            faults.push(Fault::Content("macsec.version", 1));
        }
        if unmodified && sl == 1 {
            faults.push(Fault::Content("macsec.short_len_1_unmodified", 1));
        }
        if avail < hdr {
            faults.push(Fault::Short { need: hdr });
        }
        if !faults.is_empty() {
            self.stop(RK::Macsec, faults);
            return Next::None;
        }
        // short length counts the bytes behind the SecTAG; the crate counts the ether type as header
        let want_payload = if sl == 0 {
            None
        } else if unmodified {
            Some(sl - 2)
        } else {
            Some(sl)
        };
        let mut incomplete = false;
        let pay_end = match want_payload {
            None => self.end,
            Some(n) => {
                if hdr + n > avail {
                    if self.lax {
                        incomplete = true;
                        self.end
                    } else {
                        self.stop(RK::Macsec, vec![Fault::FieldAboveData { src: Src::MacsecSl, need: hdr + n }]);
                        return Next::None;
                    }
                } else {
                    let e = p + hdr + n;
                    self.limit(Src::MacsecSl, e);
                    e
                }
            }
        };
        let mut fields: Vec<(&'static str, u128)> = vec![
            ("es", es as u128),
            ("sc", sc as u128),
            ("scb", scb as u128),
            ("e", e as u128),
            ("c", c as u128),
            ("an", an as u128),
            ("short_len", sl as u128),
            ("pn", be32(b, p + 2) as u128),
        ];
        if sc {
            fields.push(("sci", be_n(b, p + 6, 8)));
        }
        let next = if unmodified {
            let et = be16(b, p + hdr - 2) as u16;
            fields.push(("ether_type", et as u128));
            Next::Ether(et)
        } else {
            Next::MacsecModified
        };
        let l = RLayer {
            kind: RK::Macsec,
            off: p,
            hlen: hdr,
            pay: (p + hdr, pay_end - p - hdr),
            fields,
            ranges: vec![],
            pay_srcs: if incomplete { vec![Src::Slice] } else { self.srcs_for_end(pay_end) },
            incomplete,
            fragmented: false,
            next,
        };
        self.out.layers.push(l);
        self.pos += hdr;
        next
    }
    fn arp(&mut self) {
        let (b, p) = (self.b, self.pos);
        let avail = self.avail();
        if avail < 8 {
            self.stop(RK::Arp, vec![Fault::Short { need: 8 }]);
            return;
        }
        let h = b[p + 4] as usize;
        let pl = b[p + 5] as usize;
        let full = 8 + 2 * h + 2 * pl;
        if avail < full {
            self.stop(RK::Arp, vec![Fault::FieldAboveData { src: Src::ArpAddr, need: full }, Fault::Short { need: full }]);
            return;
        }
        let l = RLayer {
            kind: RK::Arp,
            off: p,
            hlen: full,
            pay: (p + full, 0),
            fields: vec![("htype", be16(b, p) as u128), ("ptype", be16(b, p + 2) as u128), ("hlen", h as u128), ("plen", pl as u128), ("oper", be16(b, p + 6) as u128)],
            ranges: vec![("sha", p + 8, h), ("spa", p + 8 + h, pl), ("tha", p + 8 + h + pl, h), ("tpa", p + 8 + 2 * h + pl, pl)],
            pay_srcs: vec![],
            incomplete: false,
            fragmented: false,
            next: Next::None,
        };
        self.out.layers.push(l);
        self.pos += full;
    }

    // ---- net -----------------------------------------------------------------------------
    /// `require`: Some(4|6) when the door fixes the version (ether type / version specific decoder), None = dispatch
    fn ip(&mut self, require: Option<u8>) -> Next {
        let (b, p) = (self.b, self.pos);
        if self.avail() == 0 {
            match require {
                Some(4) => self.stop(RK::Ipv4, vec![Fault::Short { need: 20 }]),
                Some(_) => self.stop(RK::Ipv6, vec![Fault::Short { need: 40 }]),
                None => {
                    self.stop(RK::Ipv4, vec![Fault::Short { need: 1 }, Fault::Short { need: 20 }, Fault::Short { need: 40 }]);
                    if let Some(s) = self.out.stop.as_mut() {
                        s.ip_generic = true;
                    }
                }
            }
            return Next::None;
        }
        let v = b[p] >> 4;
        match require {
            Some(4) => self.ipv4(),
            Some(_) => self.ipv6(),
            None => match v {
                4 => self.ipv4(),
                6 => self.ipv6(),
                _ => {
                    self.stop(RK::Ipv4, vec![Fault::Content("ip.version", v as u64)]);
                    if let Some(s) = self.out.stop.as_mut() {
                        s.ip_generic = true;
                    }
                    Next::None
                }
            },
        }
    }
    fn ipv4(&mut self) -> Next {
        let (b, p) = (self.b, self.pos);
        let avail = self.avail();
        if avail < 20 {
            // a version / IHL fault may be visible as well when the first byte is present
            let mut f = vec![Fault::Short { need: 20 }];
            if avail >= 1 {
                if b[p] >> 4 != 4 {
                    f.push(Fault::Content("ipv4.version", (b[p] >> 4) as u64));
                }
                if b[p] & 0xf < 5 {
                    f.push(Fault::Content("ipv4.ihl", (b[p] & 0xf) as u64));
                } else if ((b[p] & 0xf) as usize) * 4 > avail {
                    f.push(Fault::Short { need: ((b[p] & 0xf) as usize) * 4 });
                }
            }
            self.stop(RK::Ipv4, f);
            return Next::None;
        }
        let version = b[p] >> 4;
        let ihl = (b[p] & 0xf) as usize;
        let mut faults = vec![];
        if version != 4 {
            faults.push(Fault::Content("ipv4.version", version as u64));
        }
        if ihl < 5 {
            faults.push(Fault::Content("ipv4.ihl", ihl as u64));
        }
        let hdr = ihl * 4;
        if ihl >= 5 && hdr > avail {
            faults.push(Fault::Short { need: hdr });
        }
        if !faults.is_empty() {
            self.stop(RK::Ipv4, faults);
            return Next::None;
        }
        let total = be16(b, p + 2) as usize;
        let mut incomplete = false;
        let mut total_used = true;
        let pay_end = if total < hdr {
            if self.lax {
                total_used = false;
                self.end
            } else {
                self.stop(RK::Ipv4, vec![Fault::FieldBelowHeader { src: Src::Ipv4Total, value: total, hdr }]);
                return Next::None;
            }
        } else if total > avail {
            if self.lax {
                incomplete = true;
                total_used = false;
                self.end
            } else {
                self.stop(RK::Ipv4, vec![Fault::FieldAboveData { src: Src::Ipv4Total, need: total }]);
                return Next::None;
            }
        } else {
            let e = p + total;
            self.limit(Src::Ipv4Total, e);
            e
        };
        let fo = be16(b, p + 6);
        let mf = fo & 0x2000 != 0;
        let off = fo & 0x1fff;
        let proto = b[p + 9];
        let l = RLayer {
            kind: RK::Ipv4,
            off: p,
            hlen: hdr,
            pay: (p + hdr, pay_end - p - hdr),
            fields: vec![
                ("ihl", ihl as u128),
                ("dscp", (b[p + 1] >> 2) as u128),
                ("ecn", (b[p + 1] & 3) as u128),
                ("total_len", total as u128),
                ("id", be16(b, p + 4) as u128),
                ("df", ((fo >> 14) & 1) as u128),
                ("mf", mf as u128),
                ("frag_off", off as u128),
                ("ttl", b[p + 8] as u128),
                ("protocol", proto as u128),
                ("checksum", be16(b, p + 10) as u128),
                ("src", be32(b, p + 12) as u128),
                ("dst", be32(b, p + 16) as u128),
            ],
            ranges: vec![("options", p + 20, hdr - 20)],
            pay_srcs: if total_used { self.srcs_for_end(pay_end) } else { vec![Src::Slice] },
            incomplete,
            fragmented: mf || off != 0,
            next: Next::Ip(proto),
        };
        let fragmented = l.fragmented;
        self.out.layers.push(l);
        self.pos += hdr;
        let mut next = proto;
        if proto == 51 {
            match self.ah() {
                Some(n) => next = n,
                None => return Next::None,
            }
            // the IPv4 layer's payload starts behind the AH
            let (pos, end) = (self.pos, self.end);
            if let Some(l4) = self.out.layers.iter_mut().rev().find(|l| l.kind == RK::Ipv4) {
                l4.pay = (pos, end - pos);
            }
        }
        if fragmented {
            Next::None
        } else {
            Next::Ip(next)
        }
    }
    fn ah(&mut self) -> Option<u8> {
        let (b, p) = (self.b, self.pos);
        let avail = self.avail();
        if avail < 12 {
            let mut f = vec![Fault::Short { need: 12 }];
            if avail >= 2 {
                if b[p + 1] == 0 {
                    f.push(Fault::Content("ah.zero_payload_len", 0));
                } else if (b[p + 1] as usize + 2) * 4 > 12 {
                    f.push(Fault::Short { need: (b[p + 1] as usize + 2) * 4 });
                }
            }
            self.stop(RK::Ah, f);
            return None;
        }
        let lf = b[p + 1] as usize;
        if lf < 1 {
            self.stop(RK::Ah, vec![Fault::Content("ah.zero_payload_len", 0)]);
            return None;
        }
        let full = (lf + 2) * 4;
        if avail < full {
            self.stop(RK::Ah, vec![Fault::Short { need: full }]);
            return None;
        }
        let l = RLayer {
            kind: RK::Ah,
            off: p,
            hlen: full,
            pay: (p + full, self.end - p - full),
            fields: vec![("next", b[p] as u128), ("len", lf as u128), ("spi", be32(b, p + 4) as u128), ("seq", be32(b, p + 8) as u128)],
            ranges: vec![("icv", p + 12, full - 12)],
            pay_srcs: self.srcs_for_end(self.end),
            incomplete: false,
            fragmented: false,
            next: Next::Ip(b[p]),
        };
        self.out.layers.push(l);
        self.pos += full;
        Some(b[p])
    }
    fn ipv6(&mut self) -> Next {
        let (b, p) = (self.b, self.pos);
        let avail = self.avail();
        if avail < 40 {
            let mut f = vec![Fault::Short { need: 40 }];
            if avail >= 1 && b[p] >> 4 != 6 {
                f.push(Fault::Content("ipv6.version", (b[p] >> 4) as u64));
            }
            self.stop(RK::Ipv6, f);
            return Next::None;
        }
        let version = b[p] >> 4;
        if version != 6 {
            self.stop(RK::Ipv6, vec![Fault::Content("ipv6.version", version as u64)]);
            return Next::None;
        }
        let plen = be16(b, p + 4) as usize;
        let mut incomplete = false;
        let mut plen_used = false;
        let pay_end = if plen == 0 && avail > 40 {
            // documented: a zero payload length with data behind the header means "up to the end of the enclosing data"
            self.end
        } else if 40 + plen > avail {
            if self.lax {
                incomplete = true;
                self.end
            } else {
                self.stop(RK::Ipv6, vec![Fault::FieldAboveData { src: Src::Ipv6Plen, need: 40 + plen }]);
                return Next::None;
            }
        } else {
            let e = p + 40 + plen;
            self.limit(Src::Ipv6Plen, e);
            plen_used = true;
            e
        };
        let nh = b[p + 6];
        let tc = ((b[p] & 0xf) << 4) | (b[p + 1] >> 4);
        let l = RLayer {
            kind: RK::Ipv6,
            off: p,
            hlen: 40,
            pay: (p + 40, pay_end - p - 40),
            fields: vec![
                ("traffic_class", tc as u128),
                ("flow_label", (be32(b, p) & 0xfffff) as u128),
                ("payload_length", plen as u128),
                ("next_header", nh as u128),
                ("hop_limit", b[p + 7] as u128),
                ("src", be_n(b, p + 8, 16)),
                ("dst", be_n(b, p + 24, 16)),
            ],
            ranges: vec![],
            pay_srcs: if incomplete {
                vec![Src::Slice]
            } else if plen_used {
                self.srcs_for_end(pay_end)
            } else {
                let mut v = self.srcs_for_end(pay_end);
                v.retain(|s| *s != Src::Ipv6Plen);
                v
            },
            incomplete,
            fragmented: false,
            next: Next::Ip(nh),
        };
        let idx = self.out.layers.len();
        self.out.layers.push(l);
        self.pos += 40;
        // extension chain
        let mut next = nh;
        let mut first = true;
        let mut fragmented = false;
        let mut slots = Slots::default();
        loop {
            if self.struct_mode && !(next == 0) && !slots.take(next) {
                break;
            }
            let ok = match next {
                0 => {
                    if first {
                        self.raw_ext(RK::Hbh)
                    } else {
                        self.stop(RK::Hbh, vec![Fault::Content("ipv6.hop_by_hop_not_at_start", 0)]);
                        None
                    }
                }
                60 => self.raw_ext(RK::Dest),
                43 => self.raw_ext(RK::Routing),
                44 => {
                    let r = self.frag();
                    if let Some((_, f)) = r {
                        fragmented = fragmented || f;
                    }
                    r.map(|x| x.0)
                }
                51 => self.ah(),
                _ => break,
            };
            first = false;
            match ok {
                Some(n) => next = n,
                None => {
                    // the IPv6 layer's payload (lax) is what is left from the failing header on
                    let (pos, end) = (self.pos, self.end);
                    self.out.layers[idx].pay = (pos, end - pos);
                    self.out.layers[idx].fragmented = fragmented;
                    return Next::None;
                }
            }
        }
        let (pos, end) = (self.pos, self.end);
        self.out.layers[idx].pay = (pos, end - pos);
        self.out.layers[idx].fragmented = fragmented;
        if fragmented {
            Next::None
        } else {
            Next::Ip(next)
        }
    }
    fn raw_ext(&mut self, kind: RK) -> Option<u8> {
        let (b, p) = (self.b, self.pos);
        let avail = self.avail();
        if avail < 8 {
            // the full length is a real requirement too as soon as the length byte is readable
            let mut f = vec![Fault::Short { need: 8 }];
            if avail >= 2 && (b[p + 1] as usize + 1) * 8 > 8 {
                f.push(Fault::Short { need: (b[p + 1] as usize + 1) * 8 });
            }
            self.stop(kind, f);
            return None;
        }
        let lf = b[p + 1] as usize;
        let full = (lf + 1) * 8;
        if avail < full {
            self.stop(kind, vec![Fault::Short { need: full }]);
            return None;
        }
        let l = RLayer {
            kind,
            off: p,
            hlen: full,
            pay: (p + full, self.end - p - full),
            fields: vec![("next", b[p] as u128), ("len", lf as u128)],
            ranges: vec![("payload", p + 2, full - 2)],
            pay_srcs: self.srcs_for_end(self.end),
            incomplete: false,
            fragmented: false,
            next: Next::Ip(b[p]),
        };
        self.out.layers.push(l);
        self.pos += full;
        Some(b[p])
    }
    fn frag(&mut self) -> Option<(u8, bool)> {
        let (b, p) = (self.b, self.pos);
        if self.avail() < 8 {
            self.stop(RK::Frag, vec![Fault::Short { need: 8 }]);
            return None;
        }
        let fo = be16(b, p + 2);
        let off = fo >> 3;
        let mf = fo & 1 != 0;
        let l = RLayer {
            kind: RK::Frag,
            off: p,
            hlen: 8,
            pay: (p + 8, self.end - p - 8),
            fields: vec![("next", b[p] as u128), ("frag_off", off as u128), ("mf", mf as u128), ("id", be32(b, p + 4) as u128)],
            ranges: vec![],
            pay_srcs: self.srcs_for_end(self.end),
            incomplete: false,
            fragmented: mf || off != 0,
            next: Next::Ip(b[p]),
        };
        let f = l.fragmented;
        self.out.layers.push(l);
        self.pos += 8;
        Some((b[p], f))
    }

    // ---- transport -----------------------------------------------------------------------
    fn transport(&mut self, n: u8, udp_lax: bool) {
        let (b, p) = (self.b, self.pos);
        let avail = self.avail();
        match n {
            17 => {
                if avail < 8 {
                    self.stop(RK::Udp, vec![Fault::Short { need: 8 }]);
                    return;
                }
                let len = be16(b, p + 4) as usize;
                let mut len_used = false;
                let pay_end = if len == 0 {
                    self.end
                } else if len > avail {
                    if udp_lax {
                        self.end
                    } else {
                        self.stop(RK::Udp, vec![Fault::FieldAboveData { src: Src::UdpLen, need: len }]);
                        return;
                    }
                } else if len < 8 {
                    if udp_lax {
                        self.end
                    } else {
                        self.stop(RK::Udp, vec![Fault::FieldBelowHeader { src: Src::UdpLen, value: len, hdr: 8 }]);
                        return;
                    }
                } else {
                    let e = p + len;
                    self.limit(Src::UdpLen, e);
                    len_used = true;
                    e
                };
                let l = RLayer {
                    kind: RK::Udp,
                    off: p,
                    hlen: 8,
                    pay: (p + 8, pay_end - p - 8),
                    fields: vec![("sport", be16(b, p) as u128), ("dport", be16(b, p + 2) as u128), ("length", len as u128), ("checksum", be16(b, p + 6) as u128)],
                    ranges: vec![],
                    pay_srcs: if len_used {
                        self.srcs_for_end(pay_end)
                    } else {
                        let mut v = self.srcs_for_end(pay_end);
                        v.retain(|s| *s != Src::UdpLen);
                        v
                    },
                    incomplete: false,
                    fragmented: false,
                    next: Next::None,
                };
                self.out.layers.push(l);
                self.pos += 8;
            }
            6 => {
                if avail < 20 {
                    self.stop(RK::Tcp, vec![Fault::Short { need: 20 }]);
                    return;
                }
                let doff = (b[p + 12] >> 4) as usize;
                if doff < 5 {
                    self.stop(RK::Tcp, vec![Fault::Content("tcp.data_offset", doff as u64)]);
                    return;
                }
                let hdr = doff * 4;
                if avail < hdr {
                    self.stop(RK::Tcp, vec![Fault::Short { need: hdr }]);
                    return;
                }
                let fl = be16(b, p + 12);
                let l = RLayer {
                    kind: RK::Tcp,
                    off: p,
                    hlen: hdr,
                    pay: (p + hdr, self.end - p - hdr),
                    fields: vec![
                        ("sport", be16(b, p) as u128),
                        ("dport", be16(b, p + 2) as u128),
                        ("seq", be32(b, p + 4) as u128),
                        ("ack_nr", be32(b, p + 8) as u128),
                        ("data_offset", doff as u128),
                        ("ns", ((fl >> 8) & 1) as u128),
                        ("cwr", ((fl >> 7) & 1) as u128),
                        ("ece", ((fl >> 6) & 1) as u128),
                        ("urg", ((fl >> 5) & 1) as u128),
                        ("ack", ((fl >> 4) & 1) as u128),
                        ("psh", ((fl >> 3) & 1) as u128),
                        ("rst", ((fl >> 2) & 1) as u128),
                        ("syn", ((fl >> 1) & 1) as u128),
                        ("fin", (fl & 1) as u128),
                        ("window", be16(b, p + 14) as u128),
                        ("checksum", be16(b, p + 16) as u128),
                        ("urgent", be16(b, p + 18) as u128),
                    ],
                    ranges: vec![("options", p + 20, hdr - 20)],
                    pay_srcs: self.srcs_for_end(self.end),
                    incomplete: false,
                    fragmented: false,
                    next: Next::None,
                };
                self.out.layers.push(l);
                self.pos += hdr;
            }
            1 => {
                if avail < 8 {
                    self.stop(RK::Icmpv4, vec![Fault::Short { need: 8 }]);
                    return;
                }
                let (t, c) = (b[p], b[p + 1]);
                let mut hdr = 8;
                if (t == 13 || t == 14) && c == 0 {
                    // timestamp / timestamp reply: exactly 20 bytes (documented by the crate)
                    if avail < 20 {
                        self.stop(RK::Icmpv4, vec![Fault::Short { need: 20 }]);
                        return;
                    }
                    if avail > 20 {
                        self.stop(RK::Icmpv4, vec![Fault::Oversize { max: 20 }]);
                        return;
                    }
                    hdr = 20;
                }
                let l = RLayer {
                    kind: RK::Icmpv4,
                    off: p,
                    hlen: hdr,
                    pay: (p + hdr, self.end - p - hdr),
                    fields: vec![("type", t as u128), ("code", c as u128), ("checksum", be16(b, p + 2) as u128), ("bytes5to8", be32(b, p + 4) as u128)],
                    ranges: vec![],
                    pay_srcs: self.srcs_for_end(self.end),
                    incomplete: false,
                    fragmented: false,
                    next: Next::None,
                };
                self.out.layers.push(l);
                self.pos += hdr;
            }
            58 => {
                if avail < 8 {
                    self.stop(RK::Icmpv6, vec![Fault::Short { need: 8 }]);
                    return;
                }
                let l = RLayer {
                    kind: RK::Icmpv6,
                    off: p,
                    hlen: 8,
                    pay: (p + 8, self.end - p - 8),
                    fields: vec![("type", b[p] as u128), ("code", b[p + 1] as u128), ("checksum", be16(b, p + 2) as u128), ("bytes5to8", be32(b, p + 4) as u128)],
                    ranges: vec![],
                    pay_srcs: self.srcs_for_end(self.end),
                    incomplete: false,
                    fragmented: false,
                    next: Next::None,
                };
                self.out.layers.push(l);
                self.pos += 8;
            }
            _ => {}
        }
    }

    fn ether_chain(&mut self, mut next: Next) {
        let mut nexts = 0;
        loop {
            match next {
                Next::Ether(0x8100) | Next::Ether(0x88A8) | Next::Ether(0x9100) => {
                    if nexts == 3 {
                        return;
                    }
                    next = self.vlan();
                    nexts += 1;
                }
                Next::Ether(0x88E5) => {
                    if nexts == 3 {
                        return;
                    }
                    next = self.macsec();
                    nexts += 1;
                }
                Next::Ether(0x0806) => {
                    self.arp();
                    return;
                }
                Next::Ether(0x0800) => {
                    // lax decoding dispatches on the version nibble for both IP ether types
                    let n = self.ip(if self.lax { None } else { Some(4) });
                    self.after_ip(n);
                    return;
                }
                Next::Ether(0x86DD) => {
                    let n = self.ip(if self.lax { None } else { Some(6) });
                    self.after_ip(n);
                    return;
                }
                _ => return,
            }
            if self.out.stop.is_some() {
                return;
            }
        }
    }
    fn after_ip(&mut self, n: Next) {
        if self.out.stop.is_some() {
            return;
        }
        if let Next::Ip(p) = n {
            let lax = self.lax;
            self.transport(p, lax);
        }
    }
}

/// decode `b` as it arrives through `door`
pub fn decode(door: Door, b: &[u8], lax: bool) -> RefResult {
    decode_opts(door, b, lax, false)
}

/// `struct_mode`: decode like the fixed header structs (PacketHeaders, Ipv6Extensions): the IPv6 extension
/// chain ends at the first header kind that does not fit the struct any more, which is then the payload's protocol
pub fn decode_opts(door: Door, b: &[u8], lax: bool, struct_mode: bool) -> RefResult {
    let mut w = W { b, lax, struct_mode, pos: 0, end: b.len(), lims: vec![], out: RefResult::default(), nlayers_at_door: 0 };
    match door {
        Door::Eth2 => {
            let n = w.eth2();
            if w.out.stop.is_none() {
                w.ether_chain(n);
            }
        }
        Door::Sll => {
            let n = w.sll();
            if w.out.stop.is_none() {
                w.ether_chain(n);
            }
        }
        Door::Ether(t) => {
            // the ether type comes from outside: no header of the door itself; lax never fails
            w.nlayers_at_door = usize::MAX;
            w.ether_chain(Next::Ether(t));
        }
        Door::Ip => {
            let n = w.ip(None);
            w.after_ip(n);
        }
        Door::Ipv4Exts(n) => {
            w.nlayers_at_door = usize::MAX;
            if n == 51 {
                w.ah();
            }
        }
        Door::Ipv6Exts(n) => {
            w.nlayers_at_door = usize::MAX;
            let mut next = n;
            let mut first = true;
            let mut slots = Slots::default();
            loop {
                if w.struct_mode && !(next == 0) && !slots.take(next) {
                    break;
                }
                let r = match next {
                    0 => {
                        if first {
                            w.raw_ext(RK::Hbh)
                        } else {
                            w.stop(RK::Hbh, vec![Fault::Content("ipv6.hop_by_hop_not_at_start", 0)]);
                            None
                        }
                    }
                    60 => w.raw_ext(RK::Dest),
                    43 => w.raw_ext(RK::Routing),
                    44 => w.frag().map(|x| x.0),
                    51 => w.ah(),
                    _ => break,
                };
                first = false;
                match r {
                    Some(x) => next = x,
                    None => break,
                }
            }
        }
        Door::Transport(n) => {
            w.transport(n, lax);
        }
        // raw option areas have no layers (C13 / C17 own their semantics)
        Door::TcpOpts | Door::NdpOpts => {}
    }
    w.out
}

/// single IPv4 / IPv6 packet as the version specific decoders see it (no transport)
pub fn decode_ip_only(b: &[u8], lax: bool, require: Option<u8>) -> RefResult {
    decode_ip_only_opts(b, lax, require, false)
}
pub fn decode_ip_only_opts(b: &[u8], lax: bool, require: Option<u8>, struct_mode: bool) -> RefResult {
    let mut w = W { b, lax, struct_mode, pos: 0, end: b.len(), lims: vec![], out: RefResult::default(), nlayers_at_door: 0 };
    w.ip(require);
    w.out
}
