pub mod conv;
pub mod gen;
pub mod obs;
pub mod refdec;
pub mod sweep;
