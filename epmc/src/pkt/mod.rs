pub mod gen;
pub mod obs;
pub mod sweep;
