//! Converters: etherparse results -> the representation of `refdec` (layers with
//! (offset,len) ranges and named field values taken through the crate's accessors) and
//! crate errors -> a common normal form. Plus the comparators used by C03/C05/C07.

use crate::mem::rel;
use crate::pkt::refdec::*;
use etherparse::err::{self, Layer, LenError};
use etherparse::*;

pub const NOPAY: (usize, usize) = (usize::MAX, 0);

pub fn src_of(l: LenSource) -> Src {
    match l {
        LenSource::Slice => Src::Slice,
        LenSource::MacsecShortLength => Src::MacsecSl,
        LenSource::Ipv4HeaderTotalLen => Src::Ipv4Total,
        LenSource::Ipv6HeaderPayloadLen => Src::Ipv6Plen,
        LenSource::UdpHeaderLen => Src::UdpLen,
        LenSource::TcpHeaderLen => Src::TcpLen,
        LenSource::ArpAddrLengths => Src::ArpAddr,
    }
}

/// layer kinds an `err::Layer` may legitimately name
pub fn kinds_of_layer(l: Layer) -> &'static [RK] {
    use Layer::*;
    match l {
        LinuxSllHeader => &[RK::Sll],
        Ethernet2Header => &[RK::Eth2],
        EtherPayload => &[],
        VlanHeader => &[RK::Vlan],
        MacsecHeader | MacsecPacket => &[RK::Macsec],
        IpHeader => &[RK::Ipv4, RK::Ipv6],
        Ipv4Header | Ipv4Packet => &[RK::Ipv4],
        IpAuthHeader => &[RK::Ah],
        Ipv6Header | Ipv6Packet => &[RK::Ipv6],
        Ipv6ExtHeader => &[RK::Hbh, RK::Dest, RK::Routing, RK::Frag, RK::Ah],
        Ipv6HopByHopHeader => &[RK::Hbh],
        Ipv6DestOptionsHeader => &[RK::Dest],
        Ipv6RouteHeader => &[RK::Routing],
        Ipv6FragHeader => &[RK::Frag],
        UdpHeader | UdpPayload => &[RK::Udp],
        TcpHeader => &[RK::Tcp],
        Icmpv4 | Icmpv4Timestamp | Icmpv4TimestampReply => &[RK::Icmpv4],
        Icmpv6 => &[RK::Icmpv6],
        Igmp => &[],
        Arp => &[RK::Arp],
    }
}

// ------------------------------------------------------------------------------------------
// errors

#[derive(Clone, Debug, PartialEq, Eq)]
pub enum CErr {
    Len { required: usize, len: usize, src: Src, layer: Layer, off: usize },
    Content { name: &'static str, value: u64 },
}

impl CErr {
    pub fn class(&self) -> String {
        match self {
            CErr::Len { layer, .. } => format!("Len({:?})", layer),
            CErr::Content { name, .. } => format!("Content({})", name),
        }
    }
    pub fn shifted(&self, by: usize) -> CErr {
        match self {
            CErr::Len { required, len, src, layer, off } => CErr::Len { required: *required, len: *len, src: *src, layer: *layer, off: off + by },
            c => c.clone(),
        }
    }
}

pub fn len_err(e: &LenError) -> CErr {
    CErr::Len { required: e.required_len, len: e.len, src: src_of(e.len_source), layer: e.layer, off: e.layer_start_offset }
}

pub trait ToCErr {
    fn cerr(&self) -> CErr;
}
impl ToCErr for LenError {
    fn cerr(&self) -> CErr {
        len_err(self)
    }
}
impl ToCErr for err::linux_sll::HeaderError {
    fn cerr(&self) -> CErr {
        use err::linux_sll::HeaderError::*;
        match self {
            UnsupportedPacketTypeField { packet_type } => CErr::Content { name: "sll.packet_type", value: *packet_type as u64 },
            UnsupportedArpHardwareId { arp_hardware_type } => CErr::Content { name: "sll.arphrd", value: arp_hardware_type.0 as u64 },
        }
    }
}
impl ToCErr for err::macsec::HeaderError {
    fn cerr(&self) -> CErr {
        use err::macsec::HeaderError::*;
        match self {
            UnexpectedVersion => CErr::Content { name: "macsec.version", value: 1 },
            InvalidUnmodifiedShortLen => CErr::Content { name: "macsec.short_len_1_unmodified", value: 1 },
        }
    }
}
impl ToCErr for err::ip::HeaderError {
    fn cerr(&self) -> CErr {
        use err::ip::HeaderError::*;
        match self {
            UnsupportedIpVersion { version_number } => CErr::Content { name: "ip.version", value: *version_number as u64 },
            Ipv4HeaderLengthSmallerThanHeader { ihl } => CErr::Content { name: "ipv4.ihl", value: *ihl as u64 },
        }
    }
}
impl ToCErr for err::ipv4::HeaderError {
    fn cerr(&self) -> CErr {
        use err::ipv4::HeaderError::*;
        match self {
            UnexpectedVersion { version_number } => CErr::Content { name: "ipv4.version", value: *version_number as u64 },
            HeaderLengthSmallerThanHeader { ihl } => CErr::Content { name: "ipv4.ihl", value: *ihl as u64 },
        }
    }
}
impl ToCErr for err::ipv6::HeaderError {
    fn cerr(&self) -> CErr {
        match self {
            err::ipv6::HeaderError::UnexpectedVersion { version_number } => CErr::Content { name: "ipv6.version", value: *version_number as u64 },
        }
    }
}
impl ToCErr for err::ip_auth::HeaderError {
    fn cerr(&self) -> CErr {
        CErr::Content { name: "ah.zero_payload_len", value: 0 }
    }
}
impl ToCErr for err::ipv6_exts::HeaderError {
    fn cerr(&self) -> CErr {
        match self {
            err::ipv6_exts::HeaderError::HopByHopNotAtStart => CErr::Content { name: "ipv6.hop_by_hop_not_at_start", value: 0 },
            err::ipv6_exts::HeaderError::IpAuth(a) => a.cerr(),
        }
    }
}
impl ToCErr for err::tcp::HeaderError {
    fn cerr(&self) -> CErr {
        match self {
            err::tcp::HeaderError::DataOffsetTooSmall { data_offset } => CErr::Content { name: "tcp.data_offset", value: *data_offset as u64 },
        }
    }
}
impl ToCErr for err::ip::HeadersError {
    fn cerr(&self) -> CErr {
        match self {
            err::ip::HeadersError::Ip(e) => e.cerr(),
            err::ip::HeadersError::Ipv4Ext(e) => e.cerr(),
            err::ip::HeadersError::Ipv6Ext(e) => e.cerr(),
        }
    }
}
impl ToCErr for err::ip_exts::HeaderError {
    fn cerr(&self) -> CErr {
        match self {
            err::ip_exts::HeaderError::Ipv4Ext(e) => e.cerr(),
            err::ip_exts::HeaderError::Ipv6Ext(e) => e.cerr(),
        }
    }
}
macro_rules! len_or {
    ($t:ty, $($v:ident),+) => {
        impl ToCErr for $t {
            fn cerr(&self) -> CErr {
                match self {
                    Self::Len(l) => len_err(l),
                    $( Self::$v(c) => c.cerr(), )+
                }
            }
        }
    };
}
len_or!(err::linux_sll::HeaderSliceError, Content);
len_or!(err::macsec::HeaderSliceError, Content);
len_or!(err::ip::SliceError, IpHeaders);
len_or!(err::ip::HeadersSliceError, Content);
len_or!(err::ip::LaxHeaderSliceError, Content);
len_or!(err::ipv4::SliceError, Header, Exts);
len_or!(err::ipv4::HeaderSliceError, Content);
len_or!(err::ipv6::SliceError, Header, Exts);
len_or!(err::ipv6::HeaderSliceError, Content);
len_or!(err::ip_auth::HeaderSliceError, Content);
len_or!(err::ipv6_exts::HeaderSliceError, Content);
len_or!(err::ip_exts::HeadersSliceError, Content);
len_or!(err::tcp::HeaderSliceError, Content);
len_or!(err::packet::SliceError, LinuxSll, Macsec, Ip, Ipv4, Ipv6, Ipv4Exts, Ipv6Exts, Tcp);

/// Does the crate error describe a fault that is really present in the faulty layer?
/// `strict_fields` additionally demands offset / len / len_source exactness (C07).
pub fn explain(e: &CErr, st: &RStop, strict_fields: bool) -> Result<(), String> {
    match e {
        CErr::Content { name, value } => {
            for f in &st.faults {
                if let Fault::Content(n, v) = f {
                    // the version-dispatching decoders report ipv4/ipv6 version faults as ip.version and vice versa
                    let same_rule = n == name || (n.ends_with(".version") && name.ends_with(".version") && (n.starts_with("ip") && name.starts_with("ip")));
                    if same_rule {
                        if v == value {
                            return Ok(());
                        }
                        return Err(format!("content error `{}` carries value {} but the bytes hold {}", name, value, v));
                    }
                }
            }
            Err(format!("content error `{}`({}) reported, faults really present in the {:?} layer at offset {}: {:?}", name, value, st.kind, st.off, st.faults))
        }
        CErr::Len { required, len, src, layer, off } => {
            let kinds = kinds_of_layer(*layer);
            let kind_ok = kinds.contains(&st.kind) || (st.ip_generic && kinds.iter().any(|k| matches!(k, RK::Ipv4 | RK::Ipv6)));
            if !kind_ok {
                return Err(format!("length error names layer {:?} but the fault is in the {:?} layer at offset {} (faults {:?})", layer, st.kind, st.off, st.faults));
            }
            let mut why = String::new();
            for f in &st.faults {
                let r: Result<(), String> = match f {
                    Fault::Short { need } | Fault::FieldAboveData { need, .. } => {
                        if *required != *need {
                            Err(format!("required_len {} is not {}", required, need))
                        } else if *len != st.avail {
                            Err(format!("len {} but {} bytes are available to the layer", len, st.avail))
                        } else if required <= len {
                            Err("required_len <= len for missing data".into())
                        } else {
                            // len source: the slice, a field in front that bounds the data to exactly `avail`, or the in-layer field that determines `need`
                            let in_layer = match f {
                                Fault::FieldAboveData { src: s, .. } => Some(*s),
                                _ => None,
                            };
                            if !strict_fields || *src == Src::Slice || st.avail_srcs.contains(src) || in_layer == Some(*src) {
                                Ok(())
                            } else {
                                Err(format!("len_source {:?} but only {:?} (or the slice) limit the layer to {} bytes", src, st.avail_srcs, st.avail))
                            }
                        }
                    }
                    Fault::FieldBelowHeader { src: s, value, hdr } => {
                        if *required == *hdr && *len == *value && (!strict_fields || src == s) {
                            Ok(())
                        } else {
                            Err(format!("expected required_len {} len {} source {:?}", hdr, value, s))
                        }
                    }
                    Fault::Oversize { max } => {
                        if *required == *max && *len == st.avail && required < len {
                            if !strict_fields || *src == Src::Slice || st.avail_srcs.contains(src) {
                                Ok(())
                            } else {
                                Err(format!("len_source {:?} but only {:?} (or the slice) limit the layer", src, st.avail_srcs))
                            }
                        } else {
                            Err(format!("expected required_len {} < len {}", max, st.avail))
                        }
                    }
                    Fault::Content(..) => Err("is a content fault".into()),
                };
                match r {
                    Ok(()) => {
                        if strict_fields && *off != st.off {
                            return Err(format!("layer_start_offset {} but the {:?} layer starts at byte {} of the buffer", off, st.kind, st.off));
                        }
                        return Ok(());
                    }
                    Err(x) => {
                        why.push_str(&format!("[{:?}: {}] ", f, x));
                    }
                }
            }
            Err(format!("length error {{required_len {}, len {}, source {:?}, layer {:?}, offset {}}} matches no fault of the {:?} layer at {} with {} bytes available: {}", required, len, src, layer, off, st.kind, st.off, st.avail, why))
        }
    }
}

// ------------------------------------------------------------------------------------------
// layers

fn lay(kind: RK, base: &[u8], header: &[u8], pay: Option<&[u8]>) -> Result<RLayer, String> {
    let (off, hlen) = rel(base, header)?;
    let pay = match pay {
        Some(p) => rel(base, p)?,
        None => NOPAY,
    };
    Ok(RLayer { kind, off, hlen, pay, fields: vec![], ranges: vec![], pay_srcs: vec![], incomplete: false, fragmented: false, next: Next::None })
}
fn rng(l: &mut RLayer, name: &'static str, base: &[u8], s: &[u8]) -> Result<(), String> {
    let (o, n) = rel(base, s)?;
    // empty ranges have no meaningful position
    l.ranges.push((name, if n == 0 { 0 } else { o }, n));
    Ok(())
}
fn u48(a: [u8; 6]) -> u128 {
    a.iter().fold(0u128, |v, b| (v << 8) | *b as u128)
}

pub fn eth2_layer(base: &[u8], e: &Ethernet2Slice) -> Result<RLayer, String> {
    let mut l = lay(RK::Eth2, base, e.header_slice(), Some(e.payload_slice()))?;
    l.fields = vec![("dst", u48(e.destination())), ("src", u48(e.source())), ("ether_type", e.ether_type().0 as u128)];
    l.pay_srcs = vec![src_of(e.payload().len_source)];
    Ok(l)
}
pub fn sll_layer(base: &[u8], s: &LinuxSllSlice) -> Result<RLayer, String> {
    let mut l = lay(RK::Sll, base, s.header_slice(), Some(s.payload_slice()))?;
    l.fields = vec![
        ("packet_type", u16::from(s.packet_type()) as u128),
        ("arphrd", s.arp_hardware_type().0 as u128),
        ("addr_len", s.sender_address_valid_length() as u128),
        ("addr", u64::from_be_bytes(s.sender_address_full()) as u128),
        ("protocol", u16::from(s.protocol_type()) as u128),
    ];
    rng(&mut l, "addr_valid", base, s.sender_address())?;
    l.pay_srcs = vec![Src::Slice];
    Ok(l)
}
pub fn vlan_layer(base: &[u8], v: &SingleVlanSlice) -> Result<RLayer, String> {
    let mut l = lay(RK::Vlan, base, v.header_slice(), Some(v.payload_slice()))?;
    l.fields = vec![("pcp", v.priority_code_point().value() as u128), ("dei", v.drop_eligible_indicator() as u128), ("vid", v.vlan_identifier().value() as u128), ("ether_type", v.ether_type().0 as u128)];
    l.pay_srcs = vec![src_of(v.payload().len_source)];
    Ok(l)
}
fn macsec_fields(h: &MacsecHeaderSlice) -> Vec<(&'static str, u128)> {
    let mut f: Vec<(&'static str, u128)> = vec![
        ("es", h.endstation_id() as u128),
        ("sc", h.sci_present() as u128),
        ("scb", h.tci_scb() as u128),
        ("e", h.encrypted() as u128),
        ("c", h.userdata_changed() as u128),
        ("an", h.an().value() as u128),
        ("short_len", h.short_len().value() as u128),
        ("pn", h.packet_nr() as u128),
    ];
    if let Some(s) = h.sci() {
        f.push(("sci", s as u128));
    }
    if let Some(e) = h.next_ether_type() {
        f.push(("ether_type", e.0 as u128));
    }
    f
}
pub fn macsec_layer(base: &[u8], m: &MacsecSlice) -> Result<RLayer, String> {
    let (p, src): (&[u8], Option<LenSource>) = match &m.payload {
        MacsecPayloadSlice::Unmodified(e) => (e.payload, Some(e.len_source)),
        MacsecPayloadSlice::Modified(p) => (p, None),
    };
    let mut l = lay(RK::Macsec, base, m.header.slice(), Some(p))?;
    l.fields = macsec_fields(&m.header);
    l.pay_srcs = src.map(|s| vec![src_of(s)]).unwrap_or_default();
    Ok(l)
}
pub fn lax_macsec_layer(base: &[u8], m: &LaxMacsecSlice) -> Result<RLayer, String> {
    let (p, src, inc): (&[u8], Option<LenSource>, bool) = match &m.payload {
        LaxMacsecPayloadSlice::Unmodified(e) => (e.payload, Some(e.len_source), e.incomplete),
        LaxMacsecPayloadSlice::Modified { incomplete, payload } => (payload, None, *incomplete),
    };
    let mut l = lay(RK::Macsec, base, m.header.slice(), Some(p))?;
    l.fields = macsec_fields(&m.header);
    l.pay_srcs = src.map(|s| vec![src_of(s)]).unwrap_or_default();
    l.incomplete = inc;
    Ok(l)
}
pub fn arp_layer(base: &[u8], a: &ArpPacketSlice) -> Result<RLayer, String> {
    let mut l = lay(RK::Arp, base, a.slice(), None)?;
    l.pay = (l.off + l.hlen, 0);
    l.fields = vec![
        ("htype", a.hw_addr_type().0 as u128),
        ("ptype", a.proto_addr_type().0 as u128),
        ("hlen", a.hw_addr_size() as u128),
        ("plen", a.proto_addr_size() as u128),
        ("oper", a.operation().0 as u128),
    ];
    rng(&mut l, "sha", base, a.sender_hw_addr())?;
    rng(&mut l, "spa", base, a.sender_protocol_addr())?;
    rng(&mut l, "tha", base, a.target_hw_addr())?;
    rng(&mut l, "tpa", base, a.target_protocol_addr())?;
    Ok(l)
}
fn ipv4_hdr_layer(base: &[u8], h: &Ipv4HeaderSlice, pay: &[u8]) -> Result<RLayer, String> {
    let mut l = lay(RK::Ipv4, base, h.slice(), Some(pay))?;
    l.fields = vec![
        ("ihl", h.ihl() as u128),
        ("dscp", h.dcp().value() as u128),
        ("ecn", h.ecn().value() as u128),
        ("total_len", h.total_len() as u128),
        ("id", h.identification() as u128),
        ("df", h.dont_fragment() as u128),
        ("mf", h.more_fragments() as u128),
        ("frag_off", h.fragments_offset().value() as u128),
        ("ttl", h.ttl() as u128),
        ("protocol", h.protocol().0 as u128),
        ("checksum", h.header_checksum() as u128),
        ("src", u32::from_be_bytes(h.source()) as u128),
        ("dst", u32::from_be_bytes(h.destination()) as u128),
    ];
    rng(&mut l, "options", base, h.options())?;
    Ok(l)
}
pub fn auth_layer(base: &[u8], a: &IpAuthHeaderSlice) -> Result<RLayer, String> {
    let mut l = lay(RK::Ah, base, a.slice(), None)?;
    let lf = a.slice().get(1).copied().unwrap_or(0);
    l.fields = vec![("next", a.next_header().0 as u128), ("len", lf as u128), ("spi", a.spi() as u128), ("seq", a.sequence_number() as u128)];
    rng(&mut l, "icv", base, a.raw_icv())?;
    Ok(l)
}
fn ipv6_hdr_layer(base: &[u8], h: &Ipv6HeaderSlice, pay: &[u8]) -> Result<RLayer, String> {
    let mut l = lay(RK::Ipv6, base, h.slice(), Some(pay))?;
    l.fields = vec![
        ("traffic_class", h.traffic_class() as u128),
        ("flow_label", h.flow_label().value() as u128),
        ("payload_length", h.payload_length() as u128),
        ("next_header", h.next_header().0 as u128),
        ("hop_limit", h.hop_limit() as u128),
        ("src", u128::from_be_bytes(h.source())),
        ("dst", u128::from_be_bytes(h.destination())),
    ];
    Ok(l)
}
pub fn ipv6_ext_layers(base: &[u8], exts: &Ipv6ExtensionsSlice, out: &mut Vec<RLayer>) -> Result<(), String> {
    let mut n = 0;
    for x in exts.clone().into_iter() {
        n += 1;
        if n > 300 {
            return Err("extension iterator does not terminate".into());
        }
        use Ipv6ExtensionSlice::*;
        match x {
            HopByHop(r) => out.push(raw_ext_layer(base, RK::Hbh, &r)?),
            DestinationOptions(r) => out.push(raw_ext_layer(base, RK::Dest, &r)?),
            Routing(r) => out.push(raw_ext_layer(base, RK::Routing, &r)?),
            Fragment(f) => out.push(frag_layer(base, &f)?),
            Authentication(a) => out.push(auth_layer(base, &a)?),
        }
    }
    Ok(())
}
pub fn raw_ext_layer(base: &[u8], kind: RK, r: &Ipv6RawExtHeaderSlice) -> Result<RLayer, String> {
    let mut l = lay(kind, base, r.slice(), None)?;
    let lf = r.slice().get(1).copied().unwrap_or(0);
    l.fields = vec![("next", r.next_header().0 as u128), ("len", lf as u128)];
    rng(&mut l, "payload", base, r.payload())?;
    Ok(l)
}
pub fn frag_layer(base: &[u8], f: &Ipv6FragmentHeaderSlice) -> Result<RLayer, String> {
    let mut l = lay(RK::Frag, base, f.slice(), None)?;
    l.fields = vec![("next", f.next_header().0 as u128), ("frag_off", f.fragment_offset().value() as u128), ("mf", f.more_fragments() as u128), ("id", f.identification() as u128)];
    l.fragmented = f.is_fragmenting_payload();
    Ok(l)
}
pub fn ipv4_layers(base: &[u8], i: &Ipv4Slice, out: &mut Vec<RLayer>) -> Result<(), String> {
    let p = i.payload();
    let mut l = ipv4_hdr_layer(base, &i.header(), p.payload)?;
    l.pay_srcs = vec![src_of(p.len_source)];
    l.fragmented = p.fragmented;
    l.next = Next::Ip(p.ip_number.0);
    if p.fragmented != i.is_payload_fragmented() {
        return Err("Ipv4Slice::is_payload_fragmented() disagrees with payload().fragmented".into());
    }
    out.push(l);
    if let Some(a) = i.extensions().auth {
        out.push(auth_layer(base, &a)?);
    }
    Ok(())
}
pub fn lax_ipv4_layers(base: &[u8], i: &LaxIpv4Slice, out: &mut Vec<RLayer>) -> Result<(), String> {
    let p = i.payload();
    let mut l = ipv4_hdr_layer(base, &i.header(), p.payload)?;
    l.pay_srcs = vec![src_of(p.len_source)];
    l.fragmented = p.fragmented;
    l.incomplete = p.incomplete;
    l.next = Next::Ip(p.ip_number.0);
    out.push(l);
    if let Some(a) = i.extensions().auth {
        out.push(auth_layer(base, &a)?);
    }
    Ok(())
}
pub fn ipv6_layers(base: &[u8], i: &Ipv6Slice, out: &mut Vec<RLayer>) -> Result<(), String> {
    let p = i.payload();
    let mut l = ipv6_hdr_layer(base, &i.header(), p.payload)?;
    l.pay_srcs = vec![src_of(p.len_source)];
    l.fragmented = p.fragmented;
    l.next = Next::Ip(p.ip_number.0);
    out.push(l);
    ipv6_ext_layers(base, i.extensions(), out)
}
pub fn lax_ipv6_layers(base: &[u8], i: &LaxIpv6Slice, out: &mut Vec<RLayer>) -> Result<(), String> {
    let p = i.payload();
    let mut l = ipv6_hdr_layer(base, &i.header(), p.payload)?;
    l.pay_srcs = vec![src_of(p.len_source)];
    l.fragmented = p.fragmented;
    l.incomplete = p.incomplete;
    l.next = Next::Ip(p.ip_number.0);
    out.push(l);
    ipv6_ext_layers(base, i.extensions(), out)
}
pub fn udp_layer(base: &[u8], u: &UdpSlice) -> Result<RLayer, String> {
    let mut l = lay(RK::Udp, base, u.header_slice(), Some(u.payload()))?;
    l.fields = vec![("sport", u.source_port() as u128), ("dport", u.destination_port() as u128), ("length", u.length() as u128), ("checksum", u.checksum() as u128)];
    l.pay_srcs = vec![src_of(u.payload_len_source())];
    Ok(l)
}
pub fn tcp_layer(base: &[u8], t: &TcpSlice) -> Result<RLayer, String> {
    let mut l = lay(RK::Tcp, base, t.header_slice(), Some(t.payload()))?;
    l.fields = vec![
        ("sport", t.source_port() as u128),
        ("dport", t.destination_port() as u128),
        ("seq", t.sequence_number() as u128),
        ("ack_nr", t.acknowledgment_number() as u128),
        ("data_offset", t.data_offset() as u128),
        ("ns", t.ns() as u128),
        ("cwr", t.cwr() as u128),
        ("ece", t.ece() as u128),
        ("urg", t.urg() as u128),
        ("ack", t.ack() as u128),
        ("psh", t.psh() as u128),
        ("rst", t.rst() as u128),
        ("syn", t.syn() as u128),
        ("fin", t.fin() as u128),
        ("window", t.window_size() as u128),
        ("checksum", t.checksum() as u128),
        ("urgent", t.urgent_pointer() as u128),
    ];
    rng(&mut l, "options", base, t.options())?;
    Ok(l)
}
pub fn icmpv4_layer(base: &[u8], i: &Icmpv4Slice) -> Result<RLayer, String> {
    let (off, _) = rel(base, i.slice())?;
    let pay = rel(base, i.payload())?;
    Ok(RLayer {
        kind: RK::Icmpv4,
        off,
        hlen: i.header_len(),
        pay,
        fields: vec![("type", i.type_u8() as u128), ("code", i.code_u8() as u128), ("checksum", i.checksum() as u128), ("bytes5to8", u32::from_be_bytes(i.bytes5to8()) as u128)],
        ranges: vec![],
        pay_srcs: vec![],
        incomplete: false,
        fragmented: false,
        next: Next::None,
    })
}
pub fn icmpv6_layer(base: &[u8], i: &Icmpv6Slice) -> Result<RLayer, String> {
    let (off, _) = rel(base, i.slice())?;
    let pay = rel(base, i.payload())?;
    Ok(RLayer {
        kind: RK::Icmpv6,
        off,
        hlen: i.header_len(),
        pay,
        fields: vec![("type", i.type_u8() as u128), ("code", i.code_u8() as u128), ("checksum", i.checksum() as u128), ("bytes5to8", u32::from_be_bytes(i.bytes5to8()) as u128)],
        ranges: vec![],
        pay_srcs: vec![],
        incomplete: false,
        fragmented: false,
        next: Next::None,
    })
}
pub fn transport_layer(base: &[u8], t: &TransportSlice) -> Result<RLayer, String> {
    match t {
        TransportSlice::Udp(u) => udp_layer(base, u),
        TransportSlice::Tcp(u) => tcp_layer(base, u),
        TransportSlice::Icmpv4(u) => icmpv4_layer(base, u),
        TransportSlice::Icmpv6(u) => icmpv6_layer(base, u),
    }
}

// ---- header-only slice types (separate implementations of the same accessors) ----------------------------
pub fn eth2_header_layer(base: &[u8], e: &Ethernet2HeaderSlice) -> Result<RLayer, String> {
    let mut l = lay(RK::Eth2, base, e.slice(), None)?;
    l.fields = vec![("dst", u48(e.destination())), ("src", u48(e.source())), ("ether_type", e.ether_type().0 as u128)];
    Ok(l)
}
pub fn sll_header_layer(base: &[u8], s: &LinuxSllHeaderSlice) -> Result<RLayer, String> {
    let mut l = lay(RK::Sll, base, s.slice(), None)?;
    l.fields = vec![
        ("packet_type", u16::from(s.packet_type()) as u128),
        ("arphrd", s.arp_hardware_type().0 as u128),
        ("addr_len", s.sender_address_valid_length() as u128),
        ("addr", u64::from_be_bytes(s.sender_address_full()) as u128),
        ("protocol", u16::from(s.protocol_type()) as u128),
    ];
    rng(&mut l, "addr_valid", base, s.sender_address())?;
    Ok(l)
}
pub fn vlan_header_layer(base: &[u8], v: &SingleVlanHeaderSlice) -> Result<RLayer, String> {
    let mut l = lay(RK::Vlan, base, v.slice(), None)?;
    l.fields = vec![("pcp", v.priority_code_point().value() as u128), ("dei", v.drop_eligible_indicator() as u128), ("vid", v.vlan_identifier().value() as u128), ("ether_type", v.ether_type().0 as u128)];
    Ok(l)
}
pub fn macsec_header_layer(base: &[u8], h: &MacsecHeaderSlice) -> Result<RLayer, String> {
    let mut l = lay(RK::Macsec, base, h.slice(), None)?;
    l.fields = macsec_fields(h);
    Ok(l)
}
pub fn udp_header_layer(base: &[u8], u: &UdpHeaderSlice) -> Result<RLayer, String> {
    let mut l = lay(RK::Udp, base, u.slice(), None)?;
    l.fields = vec![("sport", u.source_port() as u128), ("dport", u.destination_port() as u128), ("length", u.length() as u128), ("checksum", u.checksum() as u128)];
    Ok(l)
}
pub fn tcp_header_layer(base: &[u8], t: &TcpHeaderSlice) -> Result<RLayer, String> {
    let mut l = lay(RK::Tcp, base, t.slice(), None)?;
    l.fields = vec![
        ("sport", t.source_port() as u128),
        ("dport", t.destination_port() as u128),
        ("seq", t.sequence_number() as u128),
        ("ack_nr", t.acknowledgment_number() as u128),
        ("data_offset", t.data_offset() as u128),
        ("ns", t.ns() as u128),
        ("cwr", t.cwr() as u128),
        ("ece", t.ece() as u128),
        ("urg", t.urg() as u128),
        ("ack", t.ack() as u128),
        ("psh", t.psh() as u128),
        ("rst", t.rst() as u128),
        ("syn", t.syn() as u128),
        ("fin", t.fin() as u128),
        ("window", t.window_size() as u128),
        ("checksum", t.checksum() as u128),
        ("urgent", t.urgent_pointer() as u128),
    ];
    rng(&mut l, "options", base, t.options())?;
    Ok(l)
}
pub fn ipv4_header_layer(base: &[u8], h: &Ipv4HeaderSlice) -> Result<RLayer, String> {
    let mut l = ipv4_hdr_layer(base, h, &[])?;
    l.pay = NOPAY;
    Ok(l)
}
pub fn ipv6_header_layer(base: &[u8], h: &Ipv6HeaderSlice) -> Result<RLayer, String> {
    let mut l = ipv6_hdr_layer(base, h, &[])?;
    l.pay = NOPAY;
    Ok(l)
}

pub fn sliced_layers(base: &[u8], p: &SlicedPacket) -> Result<Vec<RLayer>, String> {
    let mut out = vec![];
    match &p.link {
        Some(LinkSlice::Ethernet2(e)) => out.push(eth2_layer(base, e)?),
        Some(LinkSlice::LinuxSll(s)) => out.push(sll_layer(base, s)?),
        _ => {}
    }
    for e in &p.link_exts {
        match e {
            LinkExtSlice::Vlan(v) => out.push(vlan_layer(base, v)?),
            LinkExtSlice::Macsec(m) => out.push(macsec_layer(base, m)?),
        }
    }
    match &p.net {
        Some(NetSlice::Ipv4(i)) => ipv4_layers(base, i, &mut out)?,
        Some(NetSlice::Ipv6(i)) => ipv6_layers(base, i, &mut out)?,
        Some(NetSlice::Arp(a)) => out.push(arp_layer(base, a)?),
        None => {}
    }
    if let Some(t) = &p.transport {
        out.push(transport_layer(base, t)?);
    }
    Ok(out)
}

pub fn lax_sliced_layers(base: &[u8], p: &LaxSlicedPacket) -> Result<Vec<RLayer>, String> {
    let mut out = vec![];
    match &p.link {
        Some(LinkSlice::Ethernet2(e)) => out.push(eth2_layer(base, e)?),
        Some(LinkSlice::LinuxSll(s)) => out.push(sll_layer(base, s)?),
        _ => {}
    }
    for e in &p.link_exts {
        match e {
            LaxLinkExtSlice::Vlan(v) => out.push(vlan_layer(base, v)?),
            LaxLinkExtSlice::Macsec(m) => out.push(lax_macsec_layer(base, m)?),
        }
    }
    match &p.net {
        Some(LaxNetSlice::Ipv4(i)) => lax_ipv4_layers(base, i, &mut out)?,
        Some(LaxNetSlice::Ipv6(i)) => lax_ipv6_layers(base, i, &mut out)?,
        Some(LaxNetSlice::Arp(a)) => out.push(arp_layer(base, a)?),
        None => {}
    }
    if let Some(t) = &p.transport {
        out.push(transport_layer(base, t)?);
    }
    Ok(out)
}

/// compare what the crate decoded with what the formats prescribe. Returns (signature, detail) per mismatch.
pub fn compare_layers(api: &str, want: &[RLayer], got: &[RLayer], check_srcs: bool) -> Vec<(String, String)> {
    let mut out = vec![];
    let wk: Vec<RK> = want.iter().map(|l| l.kind).collect();
    let gk: Vec<RK> = got.iter().map(|l| l.kind).collect();
    if wk != gk {
        out.push((format!("layer-sequence:{}", api), format!("{}: decoded layers {:?}, the wire formats prescribe {:?}", api, gk, wk)));
        return out;
    }
    for (w, g) in want.iter().zip(got.iter()) {
        let k = format!("{:?}", w.kind);
        if (w.off, w.hlen) != (g.off, g.hlen) {
            out.push((format!("header-range:{}:{}", api, k), format!("{}: {} header at ({},{}) but the format says ({},{})", api, k, g.off, g.hlen, w.off, w.hlen)));
            continue;
        }
        if g.pay != NOPAY && w.pay != g.pay && !(w.pay.1 == 0 && g.pay.1 == 0) {
            out.push((format!("payload-range:{}:{}", api, k), format!("{}: {} payload at ({},{}) but the formats prescribe ({},{})", api, k, g.pay.0, g.pay.1, w.pay.0, w.pay.1)));
        }
        if w.fields.len() != g.fields.len() {
            out.push((format!("field-set:{}:{}", api, k), format!("{}: {} fields {:?} vs reference {:?}", api, k, g.fields, w.fields)));
        } else {
            for (wf, gf) in w.fields.iter().zip(g.fields.iter()) {
                if wf != gf {
                    out.push((format!("field-value:{}:{}:{}", api, k, wf.0), format!("{}: {} field {} decoded as {:#x} (as `{}`), the bytes say {:#x}", api, k, wf.0, gf.1, gf.0, wf.1)));
                }
            }
        }
        for (wr, gr) in w.ranges.iter().zip(g.ranges.iter()) {
            let wn = (wr.0, if wr.2 == 0 { 0 } else { wr.1 }, wr.2);
            if wn != *gr {
                out.push((format!("sub-range:{}:{}:{}", api, k, wr.0), format!("{}: {} {} at ({},{}) but the format says ({},{})", api, k, wr.0, gr.1, gr.2, wn.1, wn.2)));
            }
        }
        if matches!(w.kind, RK::Ipv4 | RK::Ipv6 | RK::Frag) && w.fragmented != g.fragmented {
            out.push((format!("fragmented-flag:{}:{}", api, k), format!("{}: {} fragmented={} but the header bits say {}", api, k, g.fragmented, w.fragmented)));
        }
        if w.incomplete != g.incomplete {
            out.push((format!("incomplete-flag:{}:{}", api, k), format!("{}: {} incomplete={} but its length field {} more than the slice holds", api, k, g.incomplete, if w.incomplete { "promised" } else { "did not promise" })));
        }
        if check_srcs {
            if let Some(s) = g.pay_srcs.first() {
                if *s != Src::Slice && !w.pay_srcs.contains(s) {
                    out.push((format!("payload-len-source:{}:{}", api, k), format!("{}: {} payload reports length source {:?} but only {:?} explain where it ends", api, k, s, w.pay_srcs)));
                }
                if w.incomplete && *s != Src::Slice {
                    out.push((format!("incomplete-len-source:{}:{}", api, k), format!("{}: {} payload is incomplete but reports length source {:?} instead of the slice", api, k, s)));
                }
            }
        }
    }
    out
}

// ------------------------------------------------------------------------------------------
// derived views of the whole-packet slicers (`ether_payload()`, `ip_payload()`, `vlan()`, `vlan_ids()`,
// `payload_ether_type()`, `is_ip_payload_fragmented()`): convenience accessors that re-derive what the primary
// fields already say; judged against the reference layers

/// what the accessors returned, in harness terms
#[derive(Debug, Default)]
pub struct Views {
    /// (ether type, payload range, length source)
    pub ether_payload: Option<(u16, (usize, usize), Src)>,
    /// outer None: the type has no such accessor
    pub payload_ether_type: Option<Option<u16>>,
    /// (ip number, fragmented, payload range)
    pub ip_payload: Option<(u8, bool, (usize, usize))>,
    pub frag_flag: Option<bool>,
    /// 0 none, 1 single, 2 double + (header offset, vid) of the tags it holds
    pub vlan: (u8, Vec<(usize, u16)>),
    pub vlan_ids: Vec<u16>,
    /// were net / transport decoded (the crate's own primary fields)
    pub has_net_or_transport: bool,
}

fn vlan_view(base: &[u8], v: Option<VlanSlice>) -> Result<(u8, Vec<(usize, u16)>), String> {
    Ok(match v {
        None => (0, vec![]),
        Some(VlanSlice::SingleVlan(s)) => (1, vec![(rel(base, s.header_slice())?.0, s.vlan_identifier().value())]),
        Some(VlanSlice::DoubleVlan(d)) => (2, vec![(rel(base, d.outer.header_slice())?.0, d.outer.vlan_identifier().value()), (rel(base, d.inner.header_slice())?.0, d.inner.vlan_identifier().value())]),
    })
}

pub fn views_strict(base: &[u8], p: &SlicedPacket) -> Result<Views, String> {
    Ok(Views {
        ether_payload: match p.ether_payload() {
            Some(e) => Some((e.ether_type.0, rel(base, e.payload)?, src_of(e.len_source))),
            None => None,
        },
        payload_ether_type: Some(p.payload_ether_type().map(|e| e.0)),
        ip_payload: match p.ip_payload() {
            Some(i) => Some((i.ip_number.0, i.fragmented, rel(base, i.payload)?)),
            None => None,
        },
        frag_flag: Some(p.is_ip_payload_fragmented()),
        vlan: vlan_view(base, p.vlan())?,
        vlan_ids: p.vlan_ids().iter().map(|v| v.value()).collect(),
        has_net_or_transport: p.net.is_some() || p.transport.is_some(),
    })
}

pub fn views_lax(base: &[u8], p: &LaxSlicedPacket) -> Result<Views, String> {
    Ok(Views {
        ether_payload: match p.ether_payload() {
            Some(e) => Some((e.ether_type.0, rel(base, e.payload)?, src_of(e.len_source))),
            None => None,
        },
        payload_ether_type: None,
        ip_payload: match p.ip_payload() {
            Some(i) => Some((i.ip_number.0, i.fragmented, rel(base, i.payload)?)),
            None => None,
        },
        frag_flag: None,
        vlan: vlan_view(base, p.vlan())?,
        vlan_ids: p.vlan_ids().iter().map(|v| v.value()).collect(),
        has_net_or_transport: p.net.is_some() || p.transport.is_some(),
    })
}

fn same_range(a: (usize, usize), b: (usize, usize)) -> bool {
    a == b || (a.1 == 0 && b.1 == 0)
}

/// `ether_door`: Some(t) when decoding started at an ether type (the link field then is `EtherPayload{t, whole input}`)
pub fn check_views(api: &str, ether_door: Option<u16>, input_len: usize, want: &[RLayer], v: &Views) -> Vec<(String, String)> {
    let mut out: Vec<(String, String)> = vec![];
    let vlans: Vec<&RLayer> = want.iter().filter(|l| l.kind == RK::Vlan).collect();
    let vid = |l: &RLayer| l.fields.iter().find(|f| f.0 == "vid").map(|f| f.1 as u16).unwrap_or(0xffff);
    // vlan_ids(): the ids of all decoded VLAN tags, outermost first
    let want_ids: Vec<u16> = vlans.iter().map(|l| vid(l)).collect();
    if v.vlan_ids != want_ids {
        out.push((format!("derived-view:{}:vlan_ids", api), format!("{}: vlan_ids() = {:?}, the decoded VLAN tags carry {:?}", api, v.vlan_ids, want_ids)));
    }
    // vlan(): none / the only tag / the two outermost tags
    let want_vlan: (u8, Vec<(usize, u16)>) = (vlans.len().min(2) as u8, vlans.iter().take(2).map(|l| (l.off, vid(l))).collect());
    if v.vlan != want_vlan {
        out.push((format!("derived-view:{}:vlan", api), format!("{}: vlan() = {:?} (kind, [(header offset, id)]), the decoded VLAN tags are {:?}", api, v.vlan, want_vlan)));
    }
    // innermost ether payload
    let linkish: Option<&RLayer> = want.iter().filter(|l| matches!(l.kind, RK::Eth2 | RK::Sll | RK::Vlan | RK::Macsec)).last();
    // a MACsec short length may be named as length source only if it really is what ends the MACsec payload (it is set
    // and the slice holds the bytes it announces); a payload that was cut at the slice end has the slice as source
    let macsec_sl = want.iter().any(|l| l.kind == RK::Macsec && l.pay_srcs.contains(&Src::MacsecSl) && !l.incomplete);
    let want_ep: Option<Option<(u16, (usize, usize))>> = match linkish {
        Some(l) => match l.next {
            Next::Ether(t) => Some(Some((t, l.pay))),
            Next::MacsecModified => Some(None),
            _ => None, // SLL protocol values that are not ether types: not judged
        },
        None => match ether_door {
            Some(t) => Some(Some((t, (0, input_len)))),
            None => Some(None),
        },
    };
    if let Some(w) = want_ep {
        match (w, &v.ether_payload) {
            (None, None) => {}
            (Some((t, r)), Some((gt, gr, src))) => {
                if t != *gt || !same_range(r, *gr) {
                    out.push((format!("derived-view:{}:ether_payload", api), format!("{}: ether_payload() = ether type {:#06x} range {:?}, the innermost link layer says {:#06x} {:?}", api, gt, gr, t, r)));
                }
                if !(*src == Src::Slice || (*src == Src::MacsecSl && macsec_sl)) {
                    out.push((format!("derived-view:{}:ether_payload:len_source", api), format!("{}: ether_payload().len_source = {:?} but no such length field in front is what ends the payload (not set, or the slice ends before the announced length)", api, src)));
                }
            }
            (w, g) => out.push((format!("derived-view:{}:ether_payload:presence", api), format!("{}: ether_payload() = {:?}, expected {:?}", api, g, w))),
        }
        if let Some(pt) = v.payload_ether_type {
            let wpt = if v.has_net_or_transport { None } else { w.map(|x| x.0) };
            if pt != wpt {
                out.push((format!("derived-view:{}:payload_ether_type", api), format!("{}: payload_ether_type() = {:?}, expected {:?} (net/transport decoded: {})", api, pt, wpt, v.has_net_or_transport)));
            }
        }
    }
    // IP payload
    let ip = want.iter().find(|l| matches!(l.kind, RK::Ipv4 | RK::Ipv6));
    match (ip, &v.ip_payload) {
        (None, None) => {}
        (Some(l), Some((n, frag, r))) => {
            // the payload's protocol number is the `next header` of the last header of the IP layer (extensions included)
            let last = want.iter().filter(|x| matches!(x.kind, RK::Ipv4 | RK::Ipv6 | RK::Ah | RK::Hbh | RK::Dest | RK::Routing | RK::Frag)).last().unwrap_or(l);
            let wn = match last.next {
                Next::Ip(n) => n,
                _ => 0,
            };
            if wn != *n || l.fragmented != *frag || !same_range(l.pay, *r) {
                out.push((format!("derived-view:{}:ip_payload", api), format!("{}: ip_payload() = ip number {} fragmented {} range {:?}, the IP layer says {} {} {:?}", api, n, frag, r, wn, l.fragmented, l.pay)));
            }
        }
        (w, g) => out.push((format!("derived-view:{}:ip_payload:presence", api), format!("{}: ip_payload() = {:?} but the decoded net layer is {:?}", api, g, w.map(|l| l.kind)))),
    }
    if let Some(f) = v.frag_flag {
        let wf = ip.map(|l| l.fragmented).unwrap_or(false);
        if f != wf {
            out.push((format!("derived-view:{}:is_ip_payload_fragmented", api), format!("{}: is_ip_payload_fragmented() = {}, the IP layer says {}", api, f, wf)));
        }
    }
    out
}
