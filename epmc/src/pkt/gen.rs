//! E1 — the packet-construction transition system (DESIGN.md 3.2).
//!
//! A state is a stack of layer records; `serialise` turns it into bytes (refenc: written
//! from the wire formats, shares no code with `refdec`); `Packet::cases` closes a state by
//! every truncation point and hands out one `(Door, bytes)` case per layer boundary so that
//! every suffix is also fed to the decoders of its own layer.

use crate::fw::Fnv;

#[derive(Clone, Copy, PartialEq, Eq, Debug, Hash, PartialOrd, Ord)]
pub enum Kind {
    Eth2,
    Sll,
    Vlan,
    Macsec,
    Arp,
    Ipv4,
    Ah,
    Ipv6,
    Hbh,
    Dest,
    Routing,
    Frag,
    Udp,
    Tcp,
    Icmpv4,
    Icmpv6,
    /// bytes the crate does not decode (unknown ether type / ip number)
    Opaque,
}

impl Kind {
    pub fn name(self) -> &'static str {
        match self {
            Kind::Eth2 => "eth2",
            Kind::Sll => "sll",
            Kind::Vlan => "vlan",
            Kind::Macsec => "macsec",
            Kind::Arp => "arp",
            Kind::Ipv4 => "ipv4",
            Kind::Ah => "ah",
            Kind::Ipv6 => "ipv6",
            Kind::Hbh => "hbh",
            Kind::Dest => "dest",
            Kind::Routing => "routing",
            Kind::Frag => "frag",
            Kind::Udp => "udp",
            Kind::Tcp => "tcp",
            Kind::Icmpv4 => "icmpv4",
            Kind::Icmpv6 => "icmpv6",
            Kind::Opaque => "opaque",
        }
    }
    pub fn is_link(self) -> bool {
        matches!(self, Kind::Eth2 | Kind::Sll | Kind::Vlan | Kind::Macsec)
    }
    pub fn is_ip_ext(self) -> bool {
        matches!(self, Kind::Ah | Kind::Hbh | Kind::Dest | Kind::Routing | Kind::Frag)
    }
    pub fn is_transport(self) -> bool {
        matches!(self, Kind::Udp | Kind::Tcp | Kind::Icmpv4 | Kind::Icmpv6)
    }
}

/// how the main length field of a layer relates to the truth
#[derive(Clone, Copy, PartialEq, Eq, Debug, Hash)]
pub enum LenM {
    Truth,
    Minus1,
    Plus1,
    Zero,
    HdrMinus1,
    Hdr,
    Max,
    /// a fixed value
    Val(u16),
}

impl LenM {
    fn apply(self, truth: usize, hdr: usize, max: usize) -> usize {
        let v = match self {
            LenM::Truth => truth,
            LenM::Minus1 => truth.saturating_sub(1),
            LenM::Plus1 => truth + 1,
            LenM::Zero => 0,
            LenM::HdrMinus1 => hdr.saturating_sub(1),
            LenM::Hdr => hdr,
            LenM::Max => max,
            LenM::Val(v) => v as usize,
        };
        v.min(max)
    }
    fn name(self) -> String {
        match self {
            LenM::Truth => "truth".into(),
            LenM::Minus1 => "truth-1".into(),
            LenM::Plus1 => "truth+1".into(),
            LenM::Zero => "0".into(),
            LenM::HdrMinus1 => "hdr-1".into(),
            LenM::Hdr => "hdr".into(),
            LenM::Max => "max".into(),
            LenM::Val(v) => format!("{}", v),
        }
    }
}

/// One layer record. Field meaning per kind:
/// * `sel`   override of the selector field (ether type / protocol / next header); `None` = names the real next layer
/// * `lenm`  MACsec short length, IPv4 total length, AH length, IPv6 payload length, raw extension length, UDP length
/// * `var`   IPv4/TCP option bytes, AH ICV bytes, raw extension payload units (8 bytes each, beyond the first 8), opaque payload bytes
/// * `c`     content deviation id (kind specific, 0 = well formed), see `serialise`
/// * `aux`   VLAN TPID, MACsec flags (1 = SCI, 2 = E, 4 = C), ICMP variant, ARP variant, Ethernet FCS
#[derive(Clone, Debug, PartialEq, Eq, Hash)]
pub struct L {
    pub kind: Kind,
    pub sel: Option<u16>,
    pub lenm: LenM,
    pub var: u16,
    pub c: u8,
    pub aux: u16,
    /// name of the active deviation(s) ("" = default)
    pub dev: String,
}

impl L {
    pub fn new(kind: Kind) -> L {
        L { kind, sel: None, lenm: LenM::Truth, var: 0, c: 0, aux: if kind == Kind::Vlan { 0x8100 } else { 0 }, dev: String::new() }
    }
    pub fn vlan(tpid: u16) -> L {
        let mut l = L::new(Kind::Vlan);
        l.aux = tpid;
        l
    }
    pub fn macsec(flags: u16) -> L {
        let mut l = L::new(Kind::Macsec);
        l.aux = flags;
        l
    }
    pub fn opaque(n: u16) -> L {
        let mut l = L::new(Kind::Opaque);
        l.var = n;
        l
    }
    pub fn with(mut self, f: impl FnOnce(&mut L)) -> L {
        f(&mut self);
        self
    }
    pub fn macsec_modified(&self) -> bool {
        self.kind == Kind::Macsec && self.aux & 6 != 0
    }
    pub fn label(&self) -> String {
        let base = match self.kind {
            Kind::Vlan => format!("vlan{:04x}", self.aux),
            Kind::Macsec => format!("macsec{}", self.aux),
            k => k.name().to_string(),
        };
        if self.dev.is_empty() {
            base
        } else {
            format!("{}[{}]", base, self.dev)
        }
    }
}

pub const MACSEC_SCI: u16 = 1;
pub const MACSEC_E: u16 = 2;
pub const MACSEC_C: u16 = 4;

/// entry point family a byte string is meant for
#[derive(Clone, Copy, PartialEq, Eq, Debug, Hash)]
pub enum Door {
    Eth2,
    Sll,
    /// bytes start behind a header that announced this ether type
    Ether(u16),
    Ip,
    /// bytes start at an IPv4 extension header announced by this protocol number (only 51 decodes)
    Ipv4Exts(u8),
    /// bytes start at an IPv6 extension header announced by this next-header value
    Ipv6Exts(u8),
    /// bytes start at a transport header announced by this ip number
    Transport(u8),
    /// bytes are a raw TCP option area
    TcpOpts,
    /// bytes are a raw NDP option area
    NdpOpts,
}

impl Door {
    pub fn name(self) -> String {
        match self {
            Door::Eth2 => "eth2".into(),
            Door::Sll => "sll".into(),
            Door::Ether(t) => format!("ether({:#06x})", t),
            Door::Ip => "ip".into(),
            Door::Ipv4Exts(n) => format!("ipv4exts({})", n),
            Door::Ipv6Exts(n) => format!("ipv6exts({})", n),
            Door::Transport(n) => format!("transport({})", n),
            Door::TcpOpts => "tcpopts".into(),
            Door::NdpOpts => "ndpopts".into(),
        }
    }
    pub fn code(self) -> u64 {
        match self {
            Door::Eth2 => 1,
            Door::Sll => 2,
            Door::Ether(t) => 0x1_0000 | t as u64,
            Door::Ip => 3,
            Door::Ipv4Exts(n) => 0x2_0000 | n as u64,
            Door::Ipv6Exts(n) => 0x3_0000 | n as u64,
            Door::Transport(n) => 0x4_0000 | n as u64,
            Door::TcpOpts => 4,
            Door::NdpOpts => 5,
        }
    }
    pub fn parse(s: &str) -> Option<Door> {
        let num = |s: &str| -> Option<u32> {
            let s = s.trim_end_matches(')');
            if let Some(h) = s.strip_prefix("0x") {
                u32::from_str_radix(h, 16).ok()
            } else {
                s.parse().ok()
            }
        };
        if s == "eth2" {
            Some(Door::Eth2)
        } else if s == "sll" {
            Some(Door::Sll)
        } else if s == "ip" {
            Some(Door::Ip)
        } else if s == "tcpopts" {
            Some(Door::TcpOpts)
        } else if s == "ndpopts" {
            Some(Door::NdpOpts)
        } else if let Some(r) = s.strip_prefix("ether(") {
            num(r).map(|v| Door::Ether(v as u16))
        } else if let Some(r) = s.strip_prefix("ipv4exts(") {
            num(r).map(|v| Door::Ipv4Exts(v as u8))
        } else if let Some(r) = s.strip_prefix("ipv6exts(") {
            num(r).map(|v| Door::Ipv6Exts(v as u8))
        } else if let Some(r) = s.strip_prefix("transport(") {
            num(r).map(|v| Door::Transport(v as u8))
        } else {
            None
        }
    }
}

pub const ETHER_OPAQUE: u16 = 0x1234;
pub const IP_OPAQUE: u8 = 253;

/// selector value that truthfully announces layer `l`
fn announce_ether(l: Option<&L>) -> u16 {
    match l.map(|l| l.kind) {
        Some(Kind::Vlan) => l.unwrap().aux,
        Some(Kind::Macsec) => 0x88E5,
        Some(Kind::Arp) => 0x0806,
        Some(Kind::Ipv4) => 0x0800,
        Some(Kind::Ipv6) => 0x86DD,
        _ => ETHER_OPAQUE,
    }
}
fn announce_ip(l: Option<&L>) -> u8 {
    match l.map(|l| l.kind) {
        Some(Kind::Ah) => 51,
        Some(Kind::Hbh) => 0,
        Some(Kind::Dest) => 60,
        Some(Kind::Routing) => 43,
        Some(Kind::Frag) => 44,
        Some(Kind::Udp) => 17,
        Some(Kind::Tcp) => 6,
        Some(Kind::Icmpv4) => 1,
        Some(Kind::Icmpv6) => 58,
        _ => IP_OPAQUE,
    }
}

pub struct Packet {
    pub door: Door,
    pub bytes: Vec<u8>,
    /// start offset of every layer of the stack (same indices as the stack)
    pub bounds: Vec<usize>,
    /// door under which the suffix starting at `bounds[i]` is to be decoded
    pub doors: Vec<Door>,
    /// length of the packet without trailer
    pub body_len: usize,
    pub shape: String,
    pub ndev: u32,
}

fn pat(n: usize, seed: u8) -> Vec<u8> {
    (0..n).map(|i| seed.wrapping_add((i as u8).wrapping_mul(7))).collect()
}

/// serialise a stack (outermost layer first) + `trailer` bytes that lie outside every length field
pub fn serialise(door: Door, stack: &[L], trailer: usize) -> Packet {
    // inner-to-outer: `inner` is everything behind the current layer
    let mut inner: Vec<u8> = vec![];
    let mut sizes: Vec<usize> = vec![0; stack.len()];
    for i in (0..stack.len()).rev() {
        let l = &stack[i];
        let next = stack.get(i + 1);
        let mut h: Vec<u8> = vec![];
        match l.kind {
            Kind::Eth2 => {
                h.extend_from_slice(&[0x02, 0x11, 0x22, 0x33, 0x44, 0x55]);
                h.extend_from_slice(&[0x06, 0xaa, 0xbb, 0xcc, 0xdd, 0xee]);
                h.extend_from_slice(&l.sel.unwrap_or(announce_ether(next)).to_be_bytes());
            }
            Kind::Sll => {
                // c: 1 ptype 7, 2 ptype 8, 3 ptype 0xffff, 4..7 arphrd 770/778/803/824, 8..10 arphrd 0/2/65535
                let ptype: u16 = match l.c {
                    1 => 7,
                    2 => 8,
                    3 => 0xffff,
                    _ => 4,
                };
                let hrd: u16 = match l.c {
                    4 => 770,
                    5 => 778,
                    6 => 803,
                    7 => 824,
                    8 => 0,
                    9 => 2,
                    10 => 65535,
                    _ => 1,
                };
                h.extend_from_slice(&ptype.to_be_bytes());
                h.extend_from_slice(&hrd.to_be_bytes());
                h.extend_from_slice(&(if l.c == 11 { 0xffffu16 } else { 6u16 }).to_be_bytes());
                h.extend_from_slice(&[0x06, 0xaa, 0xbb, 0xcc, 0xdd, 0xee, 0x00, 0x00]);
                h.extend_from_slice(&l.sel.unwrap_or(announce_ether(next)).to_be_bytes());
            }
            Kind::Vlan => {
                // c: 1 all-ones tag
                let tci: u16 = if l.c == 1 { 0xffff } else { 0xa123 };
                h.extend_from_slice(&tci.to_be_bytes());
                h.extend_from_slice(&l.sel.unwrap_or(announce_ether(next)).to_be_bytes());
            }
            Kind::Macsec => {
                // aux flags: SCI / E / C ; c: 1 version bit set, 2 ES+SCB+AN ones
                let modified = l.aux & (MACSEC_E | MACSEC_C) != 0;
                let mut tci = 0u8;
                if l.aux & MACSEC_SCI != 0 {
                    tci |= 0x20;
                }
                if l.aux & MACSEC_E != 0 {
                    tci |= 0x08;
                }
                if l.aux & MACSEC_C != 0 {
                    tci |= 0x04;
                }
                if l.c == 1 {
                    tci |= 0x80;
                }
                if l.c == 2 {
                    tci |= 0x40 | 0x10 | 0x03;
                }
                // short length counts the bytes behind the SecTAG (the ether type belongs to them)
                let truth = inner.len() + if modified { 0 } else { 2 };
                let auto = if truth < 64 { truth } else { 0 };
                let sl = match l.lenm {
                    LenM::Truth => auto,
                    m => m.apply(truth, 2, 63),
                };
                let sl_byte = (sl as u8 & 0x3f) | if l.c == 3 { 0xc0 } else { 0 };
                h.push(tci);
                h.push(sl_byte);
                h.extend_from_slice(&0x0102_0304u32.to_be_bytes());
                if l.aux & MACSEC_SCI != 0 {
                    h.extend_from_slice(&0x1122_3344_5566_7788u64.to_be_bytes());
                }
                if !modified {
                    h.extend_from_slice(&l.sel.unwrap_or(announce_ether(next)).to_be_bytes());
                }
            }
            Kind::Arp => {
                // aux: 0 eth/ipv4, 1 hlen=plen=0, 2 hlen=plen=255, 3 (4,6), 4 (6,16); c: 1 htype 0xffff / ptype 0 / oper 0xffff
                let (hl, pl): (usize, usize) = match l.aux {
                    1 => (0, 0),
                    2 => (255, 255),
                    3 => (4, 6),
                    4 => (6, 16),
                    _ => (6, 4),
                };
                let (ht, pt, op): (u16, u16, u16) = if l.c == 1 { (0xffff, 0, 0xffff) } else { (1, 0x0800, 1) };
                h.extend_from_slice(&ht.to_be_bytes());
                h.extend_from_slice(&pt.to_be_bytes());
                // lenm deviates the hardware address size byte from what is present
                let hl_field = match l.lenm {
                    LenM::Truth => hl,
                    m => m.apply(hl, 0, 255),
                };
                h.push(hl_field as u8);
                h.push(pl as u8);
                h.extend_from_slice(&op.to_be_bytes());
                h.extend(pat(hl, 0x10));
                h.extend(pat(pl, 0x40));
                h.extend(pat(hl, 0x70));
                h.extend(pat(pl, 0xa0));
            }
            Kind::Ipv4 => {
                // c: 1..4 version 6/0/5/15, 5 ihl 0, 6 ihl 4, 7 ihl truth+1, 8 ihl 15,
                //    9 MF, 10 offset!=0, 11 MF+offset, 12 reserved+DF+dscp/ecn ones
                let opts = (l.var as usize) & !3;
                let hdr = 20 + opts;
                let version: u8 = match l.c {
                    1 => 6,
                    2 => 0,
                    3 => 5,
                    4 => 15,
                    _ => 4,
                };
                let ihl: u8 = match l.c {
                    5 => 0,
                    6 => 4,
                    7 => ((hdr / 4) + 1).min(15) as u8,
                    8 => 15,
                    _ => (hdr / 4) as u8,
                };
                let total = l.lenm.apply(hdr + inner.len(), hdr, 0xffff);
                let (flags_off, tos): (u16, u8) = match l.c {
                    9 => (0x2000, 0),
                    10 => (0x0003, 0),
                    11 => (0x2000 | 0x1fff, 0),
                    12 => (0x8000 | 0x4000, 0xff),
                    _ => (0x4000, 0),
                };
                h.push((version << 4) | (ihl & 0xf));
                h.push(tos);
                h.extend_from_slice(&(total as u16).to_be_bytes());
                h.extend_from_slice(&0xbeefu16.to_be_bytes());
                h.extend_from_slice(&flags_off.to_be_bytes());
                h.push(64);
                h.push(l.sel.map(|s| s as u8).unwrap_or(announce_ip(next)));
                h.extend_from_slice(&0x1c46u16.to_be_bytes());
                h.extend_from_slice(&[192, 168, 1, 2]);
                h.extend_from_slice(&[10, 0, 0, 9]);
                // options: NOPs closed by an END
                for k in 0..opts {
                    h.push(if k + 1 == opts { 0 } else { 1 });
                }
            }
            Kind::Ah => {
                // var: ICV bytes (multiple of 4); lenm on the length field (units of 4 bytes, minus 2)
                let icv = (l.var as usize) & !3;
                let hdr = 12 + icv;
                let truth = hdr / 4 - 2;
                let lf = l.lenm.apply(truth, 1, 255);
                h.push(l.sel.map(|s| s as u8).unwrap_or(announce_ip(next)));
                h.push(lf as u8);
                h.extend_from_slice(&(if l.c == 1 { 0xffffu16 } else { 0 }).to_be_bytes());
                h.extend_from_slice(&0x0a0b_0c0du32.to_be_bytes());
                h.extend_from_slice(&0x0000_0007u32.to_be_bytes());
                h.extend(pat(icv, 0xc1));
            }
            Kind::Ipv6 => {
                // c: 1..4 version 4/0/5/15, 5 traffic class + flow label ones
                let version: u8 = match l.c {
                    1 => 4,
                    2 => 0,
                    3 => 5,
                    4 => 15,
                    _ => 6,
                };
                let (tc, fl): (u8, u32) = if l.c == 5 { (0xff, 0xfffff) } else { (0, 0x12345) };
                let plen = l.lenm.apply(inner.len(), 0, 0xffff);
                h.push((version << 4) | (tc >> 4));
                h.push((tc << 4) | ((fl >> 16) as u8 & 0xf));
                h.push((fl >> 8) as u8);
                h.push(fl as u8);
                h.extend_from_slice(&(plen as u16).to_be_bytes());
                h.push(l.sel.map(|s| s as u8).unwrap_or(announce_ip(next)));
                h.push(63);
                h.extend_from_slice(&[0x20, 0x01, 0x0d, 0xb8, 0, 0, 0, 0, 0, 0, 0, 0, 0, 0, 0, 1]);
                h.extend_from_slice(&[0xfe, 0x80, 0, 0, 0, 0, 0, 0, 0, 0, 0, 0, 0, 0, 0, 2]);
            }
            Kind::Hbh | Kind::Dest | Kind::Routing => {
                // var: extra 8-byte units behind the first 8 bytes; lenm on the length byte
                let units = l.var as usize;
                let lf = l.lenm.apply(units, 0, 255);
                h.push(l.sel.map(|s| s as u8).unwrap_or(announce_ip(next)));
                h.push(lf as u8);
                h.extend(pat(6 + units * 8, if l.kind == Kind::Routing { 0x30 } else { 0x01 }));
            }
            Kind::Frag => {
                // c: 1 MF, 2 offset != 0, 3 both, 4 reserved bits ones
                let (off_m, res): (u16, u8) = match l.c {
                    1 => (0x0001, 0),
                    2 => (0x0008, 0),
                    3 => (0xfff9, 0),
                    4 => (0x0006, 0xff),
                    _ => (0, 0),
                };
                h.push(l.sel.map(|s| s as u8).unwrap_or(announce_ip(next)));
                h.push(res);
                h.extend_from_slice(&off_m.to_be_bytes());
                h.extend_from_slice(&0xdead_beefu32.to_be_bytes());
            }
            Kind::Udp => {
                let len = l.lenm.apply(8 + inner.len(), 8, 0xffff);
                h.extend_from_slice(&0x1389u16.to_be_bytes());
                h.extend_from_slice(&0x0035u16.to_be_bytes());
                h.extend_from_slice(&(len as u16).to_be_bytes());
                h.extend_from_slice(&0x7a69u16.to_be_bytes());
            }
            Kind::Tcp => {
                // var: option bytes; c: 1 doff 0, 2 doff 4, 3 doff truth+1, 4 doff 15, 5 all flag/reserved bits ones
                let opts = (l.var as usize) & !3;
                let hdr = 20 + opts;
                let doff: u8 = match l.c {
                    1 => 0,
                    2 => 4,
                    3 => ((hdr / 4) + 1).min(15) as u8,
                    4 => 15,
                    _ => (hdr / 4) as u8,
                };
                let (b12low, b13): (u8, u8) = if l.c == 5 { (0x0f, 0xff) } else { (0, 0x12) };
                h.extend_from_slice(&0xc001u16.to_be_bytes());
                h.extend_from_slice(&0x01bbu16.to_be_bytes());
                h.extend_from_slice(&0x0102_0304u32.to_be_bytes());
                h.extend_from_slice(&0x0a0b_0c0du32.to_be_bytes());
                h.push((doff << 4) | b12low);
                h.push(b13);
                h.extend_from_slice(&0xfff0u16.to_be_bytes());
                h.extend_from_slice(&0x8765u16.to_be_bytes());
                h.extend_from_slice(&0x0001u16.to_be_bytes());
                // options: MSS(4) first if room, then NOPs closed by END
                let mut o: Vec<u8> = vec![];
                if opts >= 4 {
                    o.extend_from_slice(&[2, 4, 0x05, 0xb4]);
                }
                while o.len() < opts {
                    o.push(if o.len() + 1 == opts { 0 } else { 1 });
                }
                h.extend(o);
            }
            Kind::Icmpv4 => {
                // aux: 0 echo request, 1 timestamp (20 bytes), 2 timestamp reply, 3 dest unreachable/frag needed, 4 unassigned
                let (t, c): (u8, u8) = match l.aux {
                    1 => (13, 0),
                    2 => (14, 0),
                    3 => (3, 4),
                    4 => (200, 9),
                    _ => (8, 0),
                };
                h.extend_from_slice(&[t, c, 0x12, 0x34, 0x00, 0x2a, 0x00, 0x07]);
                if l.aux == 1 || l.aux == 2 {
                    h.extend(pat(12, 0x51));
                }
            }
            Kind::Icmpv6 => {
                // aux: 0 echo request, 1 neighbour solicitation (+16 byte target), 2 unassigned
                let (t, c): (u8, u8) = match l.aux {
                    1 => (135, 0),
                    2 => (201, 3),
                    _ => (128, 0),
                };
                h.extend_from_slice(&[t, c, 0x43, 0x21, 0x00, 0x2a, 0x00, 0x07]);
                if l.aux == 1 {
                    h.extend(pat(16, 0x61));
                }
            }
            Kind::Opaque => {
                h.extend(pat(l.var as usize, 0xd0));
            }
        }
        sizes[i] = h.len();
        h.extend_from_slice(&inner);
        inner = h;
    }
    let body_len = inner.len();
    // Ethernet FCS variant is not a separate layer: the trailer plays that role
    for k in 0..trailer {
        inner.push(0xf0u8.wrapping_add(k as u8));
    }
    let mut bounds = vec![];
    let mut off = 0;
    for s in &sizes {
        bounds.push(off);
        off += s;
    }
    // doors of the suffixes
    let mut doors = vec![];
    for (i, l) in stack.iter().enumerate() {
        let d = if i == 0 {
            door
        } else {
            let p = &stack[i - 1];
            match p.kind {
                Kind::Eth2 | Kind::Sll | Kind::Vlan | Kind::Macsec => {
                    if p.macsec_modified() {
                        Door::Ether(0) // never used as a decoding door: payload is opaque
                    } else {
                        Door::Ether(p.sel.unwrap_or(announce_ether(Some(l))))
                    }
                }
                Kind::Ipv4 => {
                    let n = p.sel.map(|s| s as u8).unwrap_or(announce_ip(Some(l)));
                    if l.kind.is_ip_ext() {
                        Door::Ipv4Exts(n)
                    } else {
                        Door::Transport(n)
                    }
                }
                Kind::Ipv6 | Kind::Ah | Kind::Hbh | Kind::Dest | Kind::Routing | Kind::Frag => {
                    let n = p.sel.map(|s| s as u8).unwrap_or(announce_ip(Some(l)));
                    if l.kind.is_ip_ext() {
                        // an AH directly behind IPv4 is an IPv4 extension, everything else is an IPv6 chain
                        if p.kind == Kind::Ah && i >= 2 && stack[i - 2].kind == Kind::Ipv4 {
                            Door::Ipv4Exts(n)
                        } else {
                            Door::Ipv6Exts(n)
                        }
                    } else {
                        Door::Transport(n)
                    }
                }
                _ => Door::Transport(IP_OPAQUE),
            }
        };
        doors.push(d);
    }
    let shape = {
        let mut s = door.name();
        for l in stack {
            s.push('>');
            s.push_str(&l.label());
        }
        if trailer > 0 {
            s.push_str(&format!("+trailer{}", trailer));
        }
        s
    };
    let ndev = stack.iter().filter(|l| !l.dev.is_empty()).map(|l| 1 + l.dev.matches('&').count() as u32).sum::<u32>();
    Packet { door, bytes: inner, bounds, doors, body_len, shape, ndev }
}

// ------------------------------------------------------------------------------------------
// deviation menus

/// all single deviations of a layer (level 0 = quick menu, 1 = thorough menu)
pub fn deviations(l: &L, level: u32) -> Vec<L> {
    let mut out: Vec<L> = vec![];
    let mut dv = |name: &str, f: &dyn Fn(&mut L)| {
        let mut x = l.clone();
        f(&mut x);
        x.dev = if l.dev.is_empty() { name.to_string() } else { format!("{}&{}", l.dev, name) };
        out.push(x);
    };
    let ether_sel: &[u16] = if level == 0 {
        &[0x0800, 0x86DD, 0x0806, 0x8100, 0x88E5, 0x0000]
    } else {
        &[0x0800, 0x86DD, 0x0806, 0x8100, 0x88A8, 0x9100, 0x88E5, 0x0000, 0x88E6, 0x0001, 0x00FA]
    };
    let ip_sel: &[u8] = if level == 0 {
        &[0, 43, 44, 51, 60, 17, 6, 1, 58, 59]
    } else {
        &[0, 43, 44, 50, 51, 59, 60, 135, 139, 140, 17, 6, 1, 58, 2, 4, 41, 253]
    };
    let lens: &[LenM] = &[LenM::Minus1, LenM::Plus1, LenM::Zero, LenM::HdrMinus1, LenM::Hdr, LenM::Max];
    match l.kind {
        Kind::Eth2 => {
            for s in ether_sel {
                dv(&format!("sel={:#06x}", s), &|x| x.sel = Some(*s));
            }
        }
        Kind::Sll => {
            for c in 1..=11u8 {
                dv(&format!("c{}", c), &|x| x.c = c);
            }
            for s in ether_sel {
                dv(&format!("sel={:#06x}", s), &|x| x.sel = Some(*s));
            }
            dv("sel=0x0001", &|x| x.sel = Some(1));
            dv("sel=0x00fa", &|x| x.sel = Some(0xfa));
        }
        Kind::Vlan => {
            dv("ones", &|x| x.c = 1);
            for s in ether_sel {
                dv(&format!("sel={:#06x}", s), &|x| x.sel = Some(*s));
            }
        }
        Kind::Macsec => {
            dv("version", &|x| x.c = 1);
            dv("es-scb-an-ones", &|x| x.c = 2);
            dv("sl-upper-bits", &|x| x.c = 3);
            for m in [LenM::Zero, LenM::Minus1, LenM::Plus1, LenM::Val(1), LenM::Val(2), LenM::Val(3), LenM::Max] {
                dv(&format!("sl={}", m.name()), &|x| x.lenm = m);
            }
            if !l.macsec_modified() {
                for s in ether_sel {
                    dv(&format!("sel={:#06x}", s), &|x| x.sel = Some(*s));
                }
            }
        }
        Kind::Arp => {
            for a in 1..=4u16 {
                dv(&format!("addr{}", a), &|x| x.aux = a);
            }
            dv("types-ones", &|x| x.c = 1);
            for m in [LenM::Minus1, LenM::Plus1, LenM::Zero, LenM::Max] {
                dv(&format!("hlen={}", m.name()), &|x| x.lenm = m);
            }
        }
        Kind::Ipv4 => {
            for c in 1..=12u8 {
                dv(&format!("c{}", c), &|x| x.c = c);
            }
            for m in lens {
                dv(&format!("total={}", m.name()), &|x| x.lenm = *m);
            }
            dv("opts4", &|x| x.var = 4);
            dv("opts40", &|x| x.var = 40);
            for s in ip_sel {
                dv(&format!("sel={}", s), &|x| x.sel = Some(*s as u16));
            }
        }
        Kind::Ah => {
            for m in [LenM::Zero, LenM::Minus1, LenM::Plus1, LenM::Max] {
                dv(&format!("len={}", m.name()), &|x| x.lenm = m);
            }
            dv("icv4", &|x| x.var = 4);
            dv("icv1016", &|x| x.var = 1016);
            dv("reserved-ones", &|x| x.c = 1);
            for s in ip_sel {
                dv(&format!("sel={}", s), &|x| x.sel = Some(*s as u16));
            }
        }
        Kind::Ipv6 => {
            for c in 1..=5u8 {
                dv(&format!("c{}", c), &|x| x.c = c);
            }
            for m in [LenM::Minus1, LenM::Plus1, LenM::Zero, LenM::Max, LenM::Val(1), LenM::Val(7), LenM::Val(8)] {
                dv(&format!("plen={}", m.name()), &|x| x.lenm = m);
            }
            for s in ip_sel {
                dv(&format!("sel={}", s), &|x| x.sel = Some(*s as u16));
            }
        }
        Kind::Hbh | Kind::Dest | Kind::Routing => {
            for m in [LenM::Plus1, LenM::Max, LenM::Val(1)] {
                dv(&format!("len={}", m.name()), &|x| x.lenm = m);
            }
            dv("units1", &|x| x.var = 1);
            dv("units1-len0", &|x| {
                x.var = 1;
                x.lenm = LenM::Zero
            });
            dv("units255", &|x| x.var = 255);
            for s in ip_sel {
                dv(&format!("sel={}", s), &|x| x.sel = Some(*s as u16));
            }
        }
        Kind::Frag => {
            for c in 1..=4u8 {
                dv(&format!("c{}", c), &|x| x.c = c);
            }
            for s in ip_sel {
                dv(&format!("sel={}", s), &|x| x.sel = Some(*s as u16));
            }
        }
        Kind::Udp => {
            for m in [LenM::Minus1, LenM::Plus1, LenM::Zero, LenM::HdrMinus1, LenM::Hdr, LenM::Max, LenM::Val(1)] {
                dv(&format!("len={}", m.name()), &|x| x.lenm = m);
            }
        }
        Kind::Tcp => {
            for c in 1..=5u8 {
                dv(&format!("c{}", c), &|x| x.c = c);
            }
            dv("opts4", &|x| x.var = 4);
            dv("opts40", &|x| x.var = 40);
            dv("opts40-doff+1", &|x| {
                x.var = 36;
                x.c = 3
            });
        }
        Kind::Icmpv4 => {
            for a in 1..=4u16 {
                dv(&format!("variant{}", a), &|x| x.aux = a);
            }
        }
        Kind::Icmpv6 => {
            for a in 1..=2u16 {
                dv(&format!("variant{}", a), &|x| x.aux = a);
            }
        }
        Kind::Opaque => {
            dv("empty", &|x| x.var = 0);
            dv("one", &|x| x.var = 1);
        }
    }
    out
}

// ------------------------------------------------------------------------------------------
// stack alphabets

pub fn link_ext_alphabet(level: u32) -> Vec<L> {
    let mut v = vec![L::vlan(0x8100), L::vlan(0x88A8), L::macsec(0), L::macsec(MACSEC_SCI), L::macsec(MACSEC_C)];
    if level > 0 {
        v.push(L::vlan(0x9100));
        v.push(L::macsec(MACSEC_E | MACSEC_C));
        v.push(L::macsec(MACSEC_E));
        v.push(L::macsec(MACSEC_SCI | MACSEC_E | MACSEC_C));
    }
    v
}

/// all sequences of length 0..=max over the link extension alphabet (a modified MACsec payload ends the stack)
pub fn link_prefixes(max: usize, level: u32) -> Vec<Vec<L>> {
    let alpha = link_ext_alphabet(level);
    let mut out: Vec<Vec<L>> = vec![vec![]];
    let mut frontier: Vec<Vec<L>> = vec![vec![]];
    for _ in 0..max {
        let mut next = vec![];
        for p in &frontier {
            if p.last().map(|l| l.macsec_modified()).unwrap_or(false) {
                continue;
            }
            for a in &alpha {
                let mut q = p.clone();
                q.push(a.clone());
                next.push(q);
            }
        }
        out.extend(next.iter().cloned());
        frontier = next;
    }
    out
}

pub fn ext_chain_kinds() -> [Kind; 5] {
    [Kind::Hbh, Kind::Dest, Kind::Routing, Kind::Frag, Kind::Ah]
}

/// all IPv6 extension chains of length 0..=max (with repetition; HBH-not-first etc. included)
pub fn ext_chains(max: usize) -> Vec<Vec<L>> {
    let mut out: Vec<Vec<L>> = vec![vec![]];
    let mut frontier: Vec<Vec<L>> = vec![vec![]];
    for _ in 0..max {
        let mut next = vec![];
        for p in &frontier {
            for k in ext_chain_kinds() {
                let mut q = p.clone();
                q.push(L::new(k));
                next.push(q);
            }
        }
        out.extend(next.iter().cloned());
        frontier = next;
    }
    out
}

pub fn transports(level: u32) -> Vec<Vec<L>> {
    let pl = || L::opaque(6);
    let mut v = vec![
        vec![L::new(Kind::Udp), pl()],
        vec![L::new(Kind::Tcp), pl()],
        vec![L::new(Kind::Icmpv4), pl()],
        vec![L::new(Kind::Icmpv6), pl()],
        vec![pl()],
        vec![],
    ];
    if level > 0 {
        v.push(vec![L::new(Kind::Icmpv4).with(|x| x.aux = 1)]);
        v.push(vec![L::new(Kind::Udp)]);
        v.push(vec![L::new(Kind::Tcp).with(|x| x.var = 8), L::opaque(1)]);
    }
    v
}

/// the 12-element net/transport suffix set of the link sweep
pub fn link_sweep_suffixes() -> Vec<Vec<L>> {
    let pl = || L::opaque(6);
    vec![
        vec![pl()],
        vec![L::new(Kind::Arp)],
        vec![L::new(Kind::Ipv4), L::new(Kind::Udp), pl()],
        vec![L::new(Kind::Ipv4), L::new(Kind::Tcp), pl()],
        vec![L::new(Kind::Ipv4), L::new(Kind::Icmpv4), pl()],
        vec![L::new(Kind::Ipv4), L::new(Kind::Ah), L::new(Kind::Udp), pl()],
        vec![L::new(Kind::Ipv4).with(|x| {
            x.c = 9;
            x.dev = "c9".into()
        }), L::new(Kind::Udp), pl()],
        vec![L::new(Kind::Ipv6), L::new(Kind::Udp), pl()],
        vec![L::new(Kind::Ipv6), L::new(Kind::Icmpv6), pl()],
        vec![L::new(Kind::Ipv6), L::new(Kind::Hbh), L::new(Kind::Tcp), pl()],
        vec![L::new(Kind::Ipv6), L::new(Kind::Frag), L::new(Kind::Udp), pl()],
        vec![L::new(Kind::Ipv6), L::new(Kind::Dest), L::new(Kind::Routing), pl()],
    ]
}

// ------------------------------------------------------------------------------------------
// closing a state: truncations, trailers, suffix doors

#[derive(Clone, Copy, PartialEq, Eq, Debug)]
pub enum Cuts {
    /// every byte of the packet (layers > 192 bytes: boundaries ± 2 and every 64th byte)
    All,
    /// every byte from the start of layer `i` on, plus nothing in front of it
    From(usize),
    /// only the complete packet
    Full,
}

pub struct CaseRef<'a> {
    pub door: Door,
    pub bytes: &'a [u8],
    /// index of the layer at which `bytes` starts
    pub layer: usize,
    pub key: u64,
}

impl Packet {
    /// cut positions (lengths of the prefix of the whole packet that is kept)
    pub fn cut_points(&self, cuts: Cuts) -> Vec<usize> {
        let n = self.bytes.len();
        let mut v: Vec<usize> = vec![];
        let first = match cuts {
            Cuts::All => 0,
            Cuts::From(i) => self.bounds.get(i).copied().unwrap_or(0),
            Cuts::Full => n,
        };
        // layer extents
        let mut ext: Vec<(usize, usize)> = vec![];
        for (i, b) in self.bounds.iter().enumerate() {
            let e = self.bounds.get(i + 1).copied().unwrap_or(self.body_len);
            ext.push((*b, e));
        }
        ext.push((self.body_len, n));
        for (b, e) in ext {
            if e - b <= 192 {
                for c in b..=e {
                    v.push(c);
                }
            } else {
                for c in b..=(b + 24).min(e) {
                    v.push(c);
                }
                let mut c = b + 64;
                while c < e {
                    v.push(c);
                    c += 64;
                }
                for c in e.saturating_sub(3)..=e {
                    v.push(c);
                }
            }
        }
        v.push(n);
        v.retain(|c| *c >= first && *c <= n);
        v.sort();
        v.dedup();
        v
    }

    /// every `(door, bytes[bounds[i]..cut])` case of this packet, with its de-duplication key
    pub fn for_each_case(&self, cuts: Cuts, mut f: impl FnMut(CaseRef)) {
        let points = self.cut_points(cuts);
        for (i, start) in self.bounds.iter().enumerate() {
            let door = self.doors[i];
            if let Door::Ether(0) = door {
                if i > 0 {
                    continue;
                }
            }
            // opaque tail layers are not decoding doors of their own
            if i > 0 && i < self.bounds.len() && self.is_opaque_layer(i) {
                continue;
            }
            // prefix hashes of the suffix starting at `start`
            let mut h = Fnv::new();
            h.u64(door.code());
            let mut pos = *start;
            for cut in points.iter() {
                if *cut < *start {
                    continue;
                }
                while pos < *cut {
                    h.byte(self.bytes[pos]);
                    pos += 1;
                }
                let mut k = h;
                k.u64((cut - start) as u64);
                f(CaseRef { door, bytes: &self.bytes[*start..*cut], layer: i, key: k.finish() });
            }
        }
    }
    fn is_opaque_layer(&self, _i: usize) -> bool {
        false
    }
}

/// key of a literal `(door, bytes)` case (same function as used by `for_each_case`)
pub fn case_key(door: Door, bytes: &[u8]) -> u64 {
    let mut h = Fnv::new();
    h.u64(door.code());
    h.bytes(bytes);
    h.u64(bytes.len() as u64);
    h.finish()
}
