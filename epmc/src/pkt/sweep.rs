//! The four exhaustive sweeps over the packet-construction transition system (DESIGN.md 3.2)
//! organised into work units. Every check of C01–C07 runs the same sweeps and supplies its
//! own oracle as `check(door, bytes, shape, case)`.

use crate::fw::*;
use crate::pkt::gen::*;

/// bounds of a tier (everything below is enumerated completely)
#[derive(Clone, Copy, Debug)]
pub struct Bounds {
    pub level: u32,
    /// link sweep: maximal number of link extensions
    pub link_exts: usize,
    /// link sweep: deviation bound in the link part
    pub link_dev: u32,
    /// net sweep: maximal extension chain length with 0 / with >=1 deviations
    pub chain0: usize,
    pub chain_dev: usize,
    /// net sweep deviation bound
    pub net_dev: u32,
    /// the full deviation bound is applied to link prefixes with at most this many extensions / chains of at
    /// most this length; longer ones get bound - 1
    pub link_devmax_exts: usize,
    pub net_devmax_chain: usize,
    /// cross sweep deviation bound
    pub cross_dev: u32,
    /// noise: maximal literal length
    pub noise_len: usize,
}

pub fn bounds(tier: Tier) -> Bounds {
    if tier.is_thorough() {
        Bounds { level: 1, link_exts: 4, link_dev: 2, chain0: 4, chain_dev: 3, net_dev: 2, link_devmax_exts: 1, net_devmax_chain: 1, cross_dev: 3, noise_len: 4 }
    } else {
        Bounds { level: 0, link_exts: 3, link_dev: 1, chain0: 3, chain_dev: 2, net_dev: 1, link_devmax_exts: 3, net_devmax_chain: 2, cross_dev: 2, noise_len: 3 }
    }
}

pub fn describe_bounds(tier: Tier) -> String {
    let b = bounds(tier);
    format!(
        "link sweep: entries {{eth2, sll, ether-type}} x all sequences of <= {} link extensions over {} variants x 12 net/transport suffixes (4 with deviations; in the quick tier additionally every sequence of 4 extensions - one more than the crate decodes - x 4 suffixes without deviations), <= {} deviation(s) in different layers of the link part (prefixes with more than {} extensions: one less) + all pairs of deviations inside one layer; \
         net sweep: 6 link prefixes x {{ipv4, ipv4+ah, ipv6 + every extension chain of length <= {} ({} with deviations) over {{hbh,dest,routing,frag,ah}}}} x {} transports, <= {} deviation(s) in different layers of the net/transport part (chains longer than {}: one less) + all in-layer pairs; \
         cross sweep: <= {} deviations anywhere over 30 reduced stackings; noise sweep: all literals of length <= {} over {{00,01,45,60,7f,80,ff}} + 0..64 filler bytes for every door; option sweep: all sequences of <= {} TCP option tokens (24 tokens: well formed, lying length bytes, unknown kinds) and <= {} NDP option tokens (56 tokens, incl. single options of 33 and 255 length units) cut at every byte, as raw option area and inside a TCP segment / neighbour solicitation; \
         bit sweep: {} well-formed packets (the cross stackings, SLL / ether-type / IP doors, all IPv6 extension kinds, IPv4 / TCP options, ICMP variants) with every single bit flipped, every byte inverted and every byte zeroed; every packet is closed by trailers {{0,1,5}} behind the innermost length field and by EVERY truncation point (layers > 192 B: boundaries and every 64th byte); every suffix starting at a layer boundary is also a case under the door its parent announces",
        b.link_exts,
        link_ext_alphabet(b.level).len(),
        b.link_dev,
        b.link_devmax_exts,
        b.chain0,
        b.chain_dev,
        transports(b.level).len(),
        b.net_dev,
        b.net_devmax_chain,
        b.cross_dev,
        b.noise_len,
        if b.level > 0 { 4 } else { 3 },
        if b.level > 0 { 3 } else { 2 },
        flip_stacks().len()
    )
}

// ---- unit layout ---------------------------------------------------------------------------

const LINK_CHUNK: usize = 8;

struct Plan {
    /// prefixes with index >= this one have one extension more than the deviation sweep covers: they are
    /// enumerated without deviations and with a reduced suffix set (the "one more than the crate decodes" stackings)
    n_dev_prefixes: usize,
    link_prefixes: Vec<Vec<L>>,
    n_link_units: u64,
    chains0: Vec<Vec<L>>,
    n_net_units: u64,
    cross_stacks: Vec<(Door, Vec<L>)>,
    n_cross_units: u64,
    n_noise_units: u64,
    n_opt_units: u64,
    flip_stacks: Vec<(Door, Vec<L>)>,
}

fn net_prefixes() -> Vec<(Door, Vec<L>, usize)> {
    // (door, link layers, trailer)
    vec![
        (Door::Ip, vec![], 0),
        (Door::Ether(0), vec![], 0), // ether door: the ether type is taken from the net layer
        (Door::Eth2, vec![L::new(Kind::Eth2)], 0),
        (Door::Eth2, vec![L::new(Kind::Eth2), L::vlan(0x8100)], 0),
        (Door::Eth2, vec![L::new(Kind::Eth2), L::macsec(0)], 5),
        (Door::Sll, vec![L::new(Kind::Sll)], 0),
    ]
}

fn cross_stacks() -> Vec<(Door, Vec<L>)> {
    let pl = || L::opaque(6);
    let nets: Vec<Vec<L>> = vec![
        vec![L::new(Kind::Arp)],
        vec![L::new(Kind::Ipv4), L::new(Kind::Udp), pl()],
        vec![L::new(Kind::Ipv4), L::new(Kind::Tcp), pl()],
        vec![L::new(Kind::Ipv4), L::new(Kind::Icmpv4), pl()],
        vec![L::new(Kind::Ipv4), L::new(Kind::Ah), L::new(Kind::Udp), pl()],
        vec![L::new(Kind::Ipv6), L::new(Kind::Udp), pl()],
        vec![L::new(Kind::Ipv6), L::new(Kind::Icmpv6), pl()],
        vec![L::new(Kind::Ipv6), L::new(Kind::Hbh), L::new(Kind::Udp), pl()],
        vec![L::new(Kind::Ipv6), L::new(Kind::Frag), L::new(Kind::Udp), pl()],
        vec![L::new(Kind::Ipv6), L::new(Kind::Ah), L::new(Kind::Tcp), pl()],
    ];
    let links: Vec<Vec<L>> = vec![vec![L::new(Kind::Eth2)], vec![L::new(Kind::Eth2), L::vlan(0x8100)], vec![L::new(Kind::Eth2), L::macsec(0)]];
    let mut out = vec![];
    for l in &links {
        for n in &nets {
            let mut s = l.clone();
            s.extend(n.iter().cloned());
            out.push((Door::Eth2, s));
        }
    }
    out
}

fn plan(tier: Tier) -> Plan {
    let b = bounds(tier);
    let mut link_prefixes = link_prefixes(b.link_exts, b.level);
    let n_dev_prefixes = link_prefixes.len();
    if b.link_exts < 4 {
        // the crate decodes at most 3 link extensions: every stacking of 4 (the 4th must stay payload)
        link_prefixes.extend(crate::pkt::gen::link_prefixes(4, b.level).into_iter().filter(|p| p.len() > b.link_exts));
    }
    let n_link_units = 3 * ((link_prefixes.len() + LINK_CHUNK - 1) / LINK_CHUNK) as u64;
    let chains0 = ext_chains(b.chain0);
    // net units: (prefix, net index) where net index 0 = ipv4, 1 = ipv4+ah, 2.. = ipv6 chain
    let n_net_units = (net_prefixes().len() * (2 + chains0.len())) as u64;
    let cross = cross_stacks();
    // cross units: (stack, first deviating layer)
    let n_cross_units = cross.iter().map(|(_, s)| s.len() as u64).sum();
    let n_opt_units = (tcp_opt_tokens().len() + ndp_opt_tokens().len()) as u64;
    Plan { n_dev_prefixes, link_prefixes, n_link_units, chains0, n_net_units, cross_stacks: cross, n_cross_units, n_noise_units: NOISE_DOORS.len() as u64, n_opt_units, flip_stacks: flip_stacks() }
}

pub fn units(tier: Tier) -> u64 {
    let p = plan(tier);
    p.n_link_units + p.n_net_units + p.n_cross_units + p.n_noise_units + p.n_opt_units + p.flip_stacks.len() as u64
}

/// base packets of the bit sweep: the 30 stackings of the cross sweep + SLL / ether-type / IP doors, all five IPv6
/// extension kinds, IPv4 and TCP options, the ICMP variants
fn flip_stacks() -> Vec<(Door, Vec<L>)> {
    let pl = || L::opaque(6);
    let mut stacks = cross_stacks();
    stacks.push((Door::Sll, vec![L::new(Kind::Sll), L::vlan(0x88A8), L::new(Kind::Ipv4), L::new(Kind::Udp), pl()]));
    stacks.push((Door::Sll, vec![L::new(Kind::Sll), L::new(Kind::Arp)]));
    stacks.push((Door::Ether(0), vec![L::macsec(MACSEC_SCI), L::vlan(0x8100), L::new(Kind::Ipv6), L::new(Kind::Udp), pl()]));
    stacks.push((Door::Ether(0), vec![L::vlan(0x88A8), L::vlan(0x8100), L::macsec(0), L::new(Kind::Ipv4), L::new(Kind::Tcp), pl()]));
    stacks.push((Door::Eth2, vec![L::new(Kind::Eth2), L::macsec(MACSEC_C), pl()]));
    stacks.push((Door::Eth2, vec![L::new(Kind::Eth2), L::new(Kind::Ipv6), L::new(Kind::Hbh), L::new(Kind::Dest), L::new(Kind::Routing), L::new(Kind::Dest), L::new(Kind::Frag), L::new(Kind::Ah), L::new(Kind::Tcp).with(|x| x.var = 8), pl()]));
    stacks.push((Door::Ip, vec![L::new(Kind::Ipv4).with(|x| x.var = 4), L::new(Kind::Ah).with(|x| x.var = 4), L::new(Kind::Tcp).with(|x| x.var = 12), pl()]));
    stacks.push((Door::Ip, vec![L::new(Kind::Ipv6), L::new(Kind::Icmpv6).with(|x| x.aux = 1), pl()]));
    stacks.push((Door::Ip, vec![L::new(Kind::Ipv6), L::new(Kind::Icmpv6).with(|x| x.aux = 2), pl()]));
    stacks.push((Door::Ip, vec![L::new(Kind::Ipv4), L::new(Kind::Icmpv4).with(|x| x.aux = 1)]));
    stacks.push((Door::Ip, vec![L::new(Kind::Ipv4), L::new(Kind::Icmpv4).with(|x| x.aux = 3), pl()]));
    stacks.push((Door::Ip, vec![L::new(Kind::Ipv6), L::new(Kind::Frag).with(|x| x.c = 1), L::new(Kind::Udp), pl()]));
    stacks
}

/// option tokens: well-formed options, options whose length byte lies, unknown kinds
pub fn tcp_opt_tokens() -> Vec<Vec<u8>> {
    let b8 = [0x11u8, 0x22, 0x33, 0x44, 0x55, 0x66, 0x77, 0x88];
    let mut v: Vec<Vec<u8>> = vec![
        vec![0],
        vec![1],
        vec![2, 4, 0x05, 0xb4],
        vec![3, 3, 7],
        vec![4, 2],
        [&[5u8, 10][..], &b8[..]].concat(),
        [&[5u8, 18][..], &b8[..], &b8[..]].concat(),
        [&[5u8, 34][..], &b8[..], &b8[..], &b8[..], &b8[..]].concat(),
        [&[8u8, 10][..], &b8[..]].concat(),
        // lying length bytes
        vec![2, 3, 0x05],
        vec![2, 5, 0x05, 0xb4, 0x00],
        vec![2, 0],
        vec![2, 1],
        vec![3, 2],
        vec![3, 4, 7, 7],
        vec![4, 3, 0],
        [&[5u8, 9][..], &b8[..7]].concat(),
        [&[5u8, 11][..], &b8[..], &[9u8][..]].concat(),
        vec![5, 2],
        [&[8u8, 9][..], &b8[..7]].concat(),
        [&[8u8, 11][..], &b8[..], &[9u8][..]].concat(),
        // unknown kinds
        vec![6, 4, 1, 2],
        vec![254, 2],
        vec![255, 0],
    ];
    v.dedup();
    v
}
pub fn ndp_opt_tokens() -> Vec<Vec<u8>> {
    let mut v = vec![];
    for t in [0u8, 1, 2, 3, 4, 5, 6, 255] {
        // 33 and 255 units: lengths whose byte count does not fit 8 bits (only as single options: the sequences are capped at 120 bytes)
        for units in [0u8, 1, 2, 4, 5, 33, 255] {
            let body = if units == 0 { 6 } else { units as usize * 8 - 2 };
            let mut o = vec![t, units];
            o.extend((0..body).map(|i| 0x40u8.wrapping_add(i as u8)));
            v.push(o);
        }
    }
    v
}

pub type CheckFn<'a> = &'a dyn Fn(Door, &[u8], &str, &mut Case);

fn has_len_limit(stack: &[L]) -> bool {
    stack.iter().any(|l| matches!(l.kind, Kind::Ipv4 | Kind::Ipv6 | Kind::Udp) || (l.kind == Kind::Macsec))
}

fn emit(ctx: &mut Ctx, door: Door, stack: &[L], trailers: &[usize], cuts: Cuts, check: CheckFn) {
    let limit = has_len_limit(stack);
    for (ti, t) in trailers.iter().enumerate() {
        if *t > 0 && !limit {
            continue;
        }
        let door = match door {
            Door::Ether(0) => Door::Ether(match stack.first().map(|l| l.kind) {
                Some(Kind::Ipv4) => 0x0800,
                Some(Kind::Ipv6) => 0x86DD,
                Some(Kind::Arp) => 0x0806,
                Some(Kind::Vlan) => stack[0].aux,
                Some(Kind::Macsec) => 0x88E5,
                _ => ETHER_OPAQUE,
            }),
            d => d,
        };
        let pkt = serialise(door, stack, *t);
        // prefixes that end inside the body are identical to those of the trailer-less packet
        let cuts = if ti > 0 { Cuts::From(stack.len().saturating_sub(1)) } else { cuts };
        let size = pkt.bytes.len() as u64;
        ctx.note_size(size, || format!("{} ({} bytes): {}", pkt.shape, pkt.bytes.len(), hex(&pkt.bytes)));
        pkt.for_each_case(cuts, |cr| {
            let shape = &pkt.shape;
            let ndev = pkt.ndev;
            ctx.case(
                Some(cr.key),
                || CaseDesc {
                    shape: format!("{}@{}", shape, cr.layer),
                    text: format!("door={} bytes={} (from {} layer {} cut {})", cr.door.name(), hex(cr.bytes), shape, cr.layer, cr.bytes.len()),
                    rank: (ndev as u64) * 1_000_000 + cr.bytes.len() as u64,
                },
                |case| check(cr.door, cr.bytes, shape, case),
            );
        });
    }
}

/// all stacks with exactly `k` further deviations in layers `lo..` (one deviation per layer)
fn with_devs(stack: &[L], lo: usize, k: u32, level: u32, f: &mut dyn FnMut(&[L], usize)) {
    fn rec(cur: &mut Vec<L>, from: usize, k: u32, level: u32, first: usize, f: &mut dyn FnMut(&[L], usize)) {
        if k == 0 {
            f(cur, first);
            return;
        }
        for i in from..cur.len() {
            let orig = cur[i].clone();
            for d in deviations(&orig, level) {
                cur[i] = d;
                rec(cur, i + 1, k - 1, level, first.min(i), f);
            }
            cur[i] = orig;
        }
    }
    let mut cur = stack.to_vec();
    rec(&mut cur, lo, k, level, usize::MAX, f);
}

/// pairs of deviations inside ONE layer (two different aspects)
fn in_layer_pairs(stack: &[L], lo: usize, level: u32, f: &mut dyn FnMut(&[L], usize)) {
    let mut cur = stack.to_vec();
    for i in lo..stack.len() {
        let orig = cur[i].clone();
        for d1 in deviations(&orig, level) {
            for d2 in deviations(&d1, level) {
                // keep only genuine pairs: both aspects differ from the default and from each other
                let changed = (d2.sel != orig.sel) as u32 + (d2.lenm != orig.lenm) as u32 + (d2.var != orig.var) as u32 + (d2.c != orig.c) as u32 + (d2.aux != orig.aux) as u32;
                if changed < 2 {
                    continue;
                }
                // canonical order to avoid generating (a,b) and (b,a)
                if d1.dev.as_str() > d2.dev.rsplit('&').next().unwrap_or("") {
                    continue;
                }
                cur[i] = d2;
                f(&cur, i);
            }
        }
        cur[i] = orig;
    }
}

pub const NOISE_DOORS: &[Door] = &[
    Door::Eth2,
    Door::Sll,
    Door::Ether(0x8100),
    Door::Ether(0x88E5),
    Door::Ether(0x0806),
    Door::Ether(0x0800),
    Door::Ether(0x86DD),
    Door::Ip,
    Door::Ipv4Exts(51),
    Door::Ipv6Exts(0),
    Door::Ipv6Exts(43),
    Door::Ipv6Exts(44),
    Door::Ipv6Exts(51),
    Door::Ipv6Exts(60),
    Door::Transport(17),
    Door::Transport(6),
    Door::Transport(1),
    Door::Transport(58),
    Door::Transport(2),
];

pub fn run_unit(tier: Tier, u: u64, ctx: &mut Ctx, check: CheckFn) {
    let b = bounds(tier);
    let p = plan(tier);
    let trailers = [0usize, 1, 5];
    // ---------------- link sweep
    if u < p.n_link_units {
        let chunks = (p.link_prefixes.len() + LINK_CHUNK - 1) / LINK_CHUNK;
        let entry = (u as usize) / chunks;
        let chunk = (u as usize) % chunks;
        let suffixes = link_sweep_suffixes();
        for pi in chunk * LINK_CHUNK..((chunk + 1) * LINK_CHUNK).min(p.link_prefixes.len()) {
            let pre = &p.link_prefixes[pi];
            let (door, head): (Door, Vec<L>) = match entry {
                0 => (Door::Eth2, vec![L::new(Kind::Eth2)]),
                1 => (Door::Sll, vec![L::new(Kind::Sll)]),
                _ => (Door::Ether(0), vec![]),
            };
            let mut link: Vec<L> = head;
            link.extend(pre.iter().cloned());
            let terminal = link.last().map(|l| l.macsec_modified()).unwrap_or(false);
            for (si, suf) in suffixes.iter().enumerate() {
                if terminal && si > 0 {
                    continue;
                }
                if link.is_empty() && suf.first().map(|l| l.kind == Kind::Opaque).unwrap_or(true) {
                    continue;
                }
                if pi >= p.n_dev_prefixes && !matches!(si, 0 | 1 | 2 | 8) {
                    continue;
                }
                let mut stack = link.clone();
                stack.extend(suf.iter().cloned());
                emit(ctx, door, &stack, &trailers, Cuts::All, check);
                if ctx.done() {
                    return;
                }
                if pi >= p.n_dev_prefixes {
                    continue;
                }
                // deviations in the link part only (reduced suffix set)
                if !matches!(si, 0 | 1 | 2 | 9) {
                    continue;
                }
                let nlink = link.len();
                let kmax = if pre.len() <= b.link_devmax_exts { b.link_dev } else { b.link_dev.saturating_sub(1).max(1) };
                for k in 1..=kmax {
                    let mut f = |s: &[L], first: usize| {
                        // only deviations inside the link part
                        if s[nlink..].iter().any(|l| !l.dev.is_empty() && l.dev != "c9") {
                            return;
                        }
                        emit(ctx, door, s, &trailers, Cuts::From(first.min(s.len() - 1)), check);
                    };
                    // restrict recursion to link layers by truncating a copy and re-attaching
                    let link_part = stack[..nlink].to_vec();
                    let tail = stack[nlink..].to_vec();
                    with_devs(&link_part, 0, k, b.level, &mut |lp: &[L], first: usize| {
                        let mut s = lp.to_vec();
                        s.extend(tail.iter().cloned());
                        f(&s, first);
                    });
                }
                if b.link_dev >= 1 {
                    let link_part = stack[..nlink].to_vec();
                    let tail = stack[nlink..].to_vec();
                    in_layer_pairs(&link_part, 0, b.level, &mut |lp: &[L], first: usize| {
                        let mut s = lp.to_vec();
                        s.extend(tail.iter().cloned());
                        emit(ctx, door, &s, &trailers, Cuts::From(first), check);
                    });
                }
            }
        }
        return;
    }
    let u = u - p.n_link_units;
    // ---------------- net sweep
    if u < p.n_net_units {
        let per = 2 + p.chains0.len();
        let prefs = net_prefixes();
        let (door, link, trailer_max) = &prefs[(u as usize) / per];
        let ni = (u as usize) % per;
        let (net, chain_len): (Vec<L>, usize) = match ni {
            0 => (vec![L::new(Kind::Ipv4)], 0),
            1 => (vec![L::new(Kind::Ipv4), L::new(Kind::Ah)], 0),
            n => {
                let c = &p.chains0[n - 2];
                let mut v = vec![L::new(Kind::Ipv6)];
                v.extend(c.iter().cloned());
                (v, c.len())
            }
        };
        let tr: Vec<usize> = if *trailer_max > 0 { vec![0, 1, 5] } else { vec![0, 1] };
        for t in transports(b.level) {
            let mut stack = link.clone();
            let nlink = stack.len();
            stack.extend(net.iter().cloned());
            stack.extend(t.iter().cloned());
            emit(ctx, *door, &stack, &tr, Cuts::All, check);
            if ctx.done() {
                return;
            }
            if chain_len > b.chain_dev {
                continue;
            }
            let kmax = if chain_len <= b.net_devmax_chain { b.net_dev } else { b.net_dev.saturating_sub(1).max(1) };
            for k in 1..=kmax {
                with_devs(&stack, nlink, k, b.level, &mut |s: &[L], first: usize| {
                    emit(ctx, *door, s, &tr, Cuts::From(first.min(s.len() - 1)), check);
                });
            }
            in_layer_pairs(&stack, nlink, b.level, &mut |s: &[L], first: usize| {
                emit(ctx, *door, s, &tr, Cuts::From(first), check);
            });
        }
        return;
    }
    let u = u - p.n_net_units;
    // ---------------- cross sweep: exactly cross_dev deviations (>= 2) in different layers, the first one in layer `li`
    if u < p.n_cross_units {
        let mut acc = 0u64;
        for (door, stack) in &p.cross_stacks {
            if u < acc + stack.len() as u64 {
                let li = (u - acc) as usize;
                let orig = stack[li].clone();
                for d in deviations(&orig, b.level) {
                    let mut s = stack.clone();
                    s[li] = d;
                    for k in 1..b.cross_dev {
                        with_devs(&s, li + 1, k, b.level, &mut |s2: &[L], _first: usize| {
                            emit(ctx, *door, s2, &trailers, Cuts::From(li), check);
                        });
                    }
                }
                return;
            }
            acc += stack.len() as u64;
        }
        return;
    }
    let u = u - p.n_cross_units;
    // ---------------- bit sweep: every single bit of a well-formed packet flipped, every byte inverted, every byte
    // zeroed (bits a decoder has to ignore, masks that take a neighbouring bit, selector / length bits)
    if u >= p.n_noise_units + p.n_opt_units {
        let (door, stack) = &p.flip_stacks[(u - p.n_noise_units - p.n_opt_units) as usize];
        let door = match door {
            Door::Ether(0) => Door::Ether(match stack.first().map(|l| l.kind) {
                Some(Kind::Vlan) => stack[0].aux,
                Some(Kind::Macsec) => 0x88E5,
                _ => ETHER_OPAQUE,
            }),
            d => *d,
        };
        let base = serialise(door, stack, 0);
        let n = base.bytes.len();
        for pos in 0..n {
            for m in 0..10u8 {
                let mut pkt = Packet { door: base.door, bytes: base.bytes.clone(), bounds: base.bounds.clone(), doors: base.doors.clone(), body_len: base.body_len, shape: String::new(), ndev: 1 };
                let old = pkt.bytes[pos];
                pkt.bytes[pos] = match m {
                    0..=7 => old ^ (1 << m),
                    8 => !old,
                    _ => 0,
                };
                if pkt.bytes[pos] == old {
                    continue;
                }
                let layer = pkt.bounds.iter().rposition(|b| *b <= pos).unwrap_or(0);
                pkt.shape = format!("{}^bits@{}+{}", base.shape, layer, pos - pkt.bounds[layer]);
                let shape = &pkt.shape;
                pkt.for_each_case(Cuts::All, |cr| {
                    ctx.case(
                        Some(cr.key),
                        || CaseDesc { shape: format!("{}@{}", shape, cr.layer), text: format!("door={} bytes={} (from {} layer {} cut {})", cr.door.name(), hex(cr.bytes), shape, cr.layer, cr.bytes.len()), rank: 1_500_000 + cr.bytes.len() as u64 },
                        |case| check(cr.door, cr.bytes, shape, case),
                    );
                });
                if ctx.done() {
                    return;
                }
            }
        }
        return;
    }
    // ---------------- option sweep: all sequences of <= 3 (TCP) / <= 2 (NDP) option tokens starting with token `u`,
    // cut at every byte, as raw option area and inside a TCP segment / a neighbour solicitation
    if u >= p.n_noise_units {
        let k = (u - p.n_noise_units) as usize;
        let tcp = tcp_opt_tokens();
        let ndp = ndp_opt_tokens();
        let (toks, is_tcp, first) = if k < tcp.len() { (&tcp, true, k) } else { (&ndp, false, k - tcp.len()) };
        let depth = if is_tcp { 3 } else { 2 };
        let depth = if b.level > 0 { depth + 1 } else { depth };
        let mut seqs: Vec<Vec<u8>> = vec![toks[first].clone()];
        let mut frontier = seqs.clone();
        for _ in 1..depth {
            let mut next = vec![];
            for s0 in &frontier {
                for t in toks.iter() {
                    let mut x = s0.clone();
                    x.extend_from_slice(t);
                    if x.len() <= if is_tcp { 44 } else { 120 } {
                        next.push(x);
                    }
                }
            }
            seqs.extend(next.iter().cloned());
            frontier = next;
        }
        for area in &seqs {
            for cut in 0..=area.len() {
                let raw = &area[..cut];
                let door = if is_tcp { Door::TcpOpts } else { Door::NdpOpts };
                let shape = format!("options:{}:{}bytes", door.name(), area.len());
                ctx.case(
                    Some(case_key(door, raw)),
                    || CaseDesc { shape: shape.clone(), text: format!("door={} bytes={}", door.name(), hex(raw)), rank: 8_000_000 + raw.len() as u64 },
                    |case| check(door, raw, &shape, case),
                );
                // the same area inside a complete message (the header announces exactly `cut` option bytes)
                let msg: Option<(Door, Vec<u8>)> = if is_tcp {
                    if cut % 4 == 0 && cut <= 40 {
                        let mut m = vec![0xc0, 0x01, 0x01, 0xbb, 1, 2, 3, 4, 5, 6, 7, 8, ((5 + cut / 4) as u8) << 4, 0x12, 0xff, 0xf0, 0x87, 0x65, 0, 1];
                        m.extend_from_slice(raw);
                        m.extend_from_slice(&[0xd0, 0xd7, 0xde]);
                        Some((Door::Transport(6), m))
                    } else {
                        None
                    }
                } else {
                    let mut m = vec![135u8, 0, 0x43, 0x21, 0, 0, 0, 0];
                    m.extend((0..16).map(|i| 0x61u8 + i));
                    m.extend_from_slice(raw);
                    Some((Door::Transport(58), m))
                };
                if let Some((d, m)) = msg {
                    let shape = format!("options-in-message:{}:{}bytes", d.name(), area.len());
                    ctx.case(
                        Some(case_key(d, &m)),
                        || CaseDesc { shape: shape.clone(), text: format!("door={} bytes={}", d.name(), hex(&m)), rank: 8_100_000 + m.len() as u64 },
                        |case| check(d, &m, &shape, case),
                    );
                }
            }
        }
        return;
    }
    // ---------------- noise sweep
    let door = NOISE_DOORS[u as usize];
    let alpha: [u8; 7] = [0x00, 0x01, 0x45, 0x60, 0x7f, 0x80, 0xff];
    let fillers: [usize; 12] = [0, 1, 2, 3, 4, 7, 8, 15, 16, 19, 40, 64];
    let mut lit: Vec<u8> = vec![];
    fn rec(ctx: &mut Ctx, door: Door, lit: &mut Vec<u8>, max: usize, alpha: &[u8], fillers: &[usize], check: CheckFn) {
        for fill in [0x00u8, 0xff] {
            for n in fillers {
                if lit.is_empty() && fill == 0xff && *n == 0 {
                    continue;
                }
                let mut bytes = lit.clone();
                bytes.extend(std::iter::repeat(fill).take(*n));
                let key = case_key(door, &bytes);
                let shape = format!("noise:{}:lit{}+fill{}", door.name(), lit.len(), n);
                ctx.case(
                    Some(key),
                    || CaseDesc { shape: shape.clone(), text: format!("door={} bytes={}", door.name(), hex(&bytes)), rank: 9_000_000 + bytes.len() as u64 },
                    |case| check(door, &bytes, &shape, case),
                );
            }
        }
        if lit.len() < max {
            for a in alpha {
                lit.push(*a);
                rec(ctx, door, lit, max, alpha, fillers, check);
                lit.pop();
            }
        }
    }
    rec(ctx, door, &mut lit, b.noise_len, &alpha, &fillers, check);
}


/// Reduced-bound enumeration for slow executors (Miri): 37 stackings (the 30 of the cross sweep, SLL and ether-type
/// doors, the longest chains, maximal variable parts) x {no deviation, every single deviation} x cuts at every layer
/// boundary -1 / 0 / +1, inside the innermost layer every 4th byte, and the complete packet (+ 1 trailing byte).
/// De-duplicated locally; `announce` prints one line per case so that an abort can be attributed.
pub fn run_reduced(ctx: &mut Ctx, announce: bool, stride: usize, shard: (u64, u64), check: CheckFn) -> u64 {
    use std::collections::HashSet;
    let pl = || L::opaque(6);
    let mut stacks = cross_stacks();
    stacks.push((Door::Sll, vec![L::new(Kind::Sll), L::vlan(0x88A8), L::new(Kind::Ipv4), L::new(Kind::Udp), pl()]));
    stacks.push((Door::Sll, vec![L::new(Kind::Sll), L::new(Kind::Arp)]));
    stacks.push((Door::Ether(0), vec![L::macsec(MACSEC_SCI), L::vlan(0x8100), L::new(Kind::Ipv6), L::new(Kind::Udp), pl()]));
    stacks.push((Door::Eth2, vec![L::new(Kind::Eth2), L::macsec(MACSEC_C), pl()]));
    stacks.push((Door::Eth2, vec![L::new(Kind::Eth2), L::new(Kind::Ipv6), L::new(Kind::Hbh), L::new(Kind::Dest), L::new(Kind::Routing), L::new(Kind::Dest), L::new(Kind::Frag), L::new(Kind::Ah), L::new(Kind::Tcp).with(|x| x.var = 40), pl()]));
    stacks.push((Door::Ip, vec![L::new(Kind::Ipv4).with(|x| x.var = 40), L::new(Kind::Ah).with(|x| x.var = 8), L::new(Kind::Tcp).with(|x| x.var = 12), pl()]));
    stacks.push((Door::Ip, vec![L::new(Kind::Ipv6), L::new(Kind::Icmpv6).with(|x| x.aux = 1), pl()]));
    let mut seen: HashSet<u64> = HashSet::new();
    let mut n = 0u64;
    let mut pk = 0usize;
    for (door, stack) in &stacks {
        let mut variants: Vec<Vec<L>> = vec![stack.clone()];
        with_devs(stack, 0, 1, 0, &mut |s: &[L], _| variants.push(s.to_vec()));
        for v in variants {
            pk += 1;
            if stride > 1 && pk % stride != 0 && !v.iter().all(|l| l.dev.is_empty()) {
                continue;
            }
            for trailer in [0usize, 1] {
                let door = match door {
                    Door::Ether(0) => Door::Ether(0x88E5),
                    d => *d,
                };
                let pkt = serialise(door, &v, trailer);
                // boundary cuts
                let mut cuts: Vec<usize> = vec![pkt.bytes.len()];
                for b in pkt.bounds.iter().chain(std::iter::once(&pkt.body_len)) {
                    for c in [b.saturating_sub(1), *b, b + 1] {
                        if c <= pkt.bytes.len() {
                            cuts.push(c);
                        }
                    }
                }
                let last = *pkt.bounds.last().unwrap_or(&0);
                let mut c = last;
                while c < pkt.body_len {
                    cuts.push(c);
                    c += 4;
                }
                cuts.sort();
                cuts.dedup();
                for (i, start) in pkt.bounds.iter().enumerate() {
                    let d = pkt.doors[i];
                    if let Door::Ether(0) = d {
                        continue;
                    }
                    if i > 0 && v[i].kind == Kind::Opaque {
                        continue;
                    }
                    for cut in &cuts {
                        if cut < start {
                            continue;
                        }
                        let bytes = &pkt.bytes[*start..*cut];
                        if !seen.insert(case_key(d, bytes)) {
                            continue;
                        }
                        n += 1;
                        if n % shard.1 != shard.0 {
                            continue;
                        }
                        if announce {
                            println!("MIRI-CASE {} door={} bytes={} ({} layer {})", n, d.name(), hex(bytes), pkt.shape, i);
                        }
                        let shape = &pkt.shape;
                        ctx.case(
                            None,
                            || CaseDesc { shape: shape.clone(), text: format!("door={} bytes={}", d.name(), hex(bytes)), rank: bytes.len() as u64 },
                            |case| check(d, bytes, shape, case),
                        );
                    }
                }
            }
        }
    }
    n
}
