//! Observations (DESIGN.md 3.4): for every entry point applicable to a door, call the decoder
//! and then *every* accessor, conversion, iterator and formatter reachable from the result.
//! Everything observable is rendered into a canonical text in which slices appear as
//! `(offset,len)` relative to the input (never as addresses); every slice handed out is also
//! checked for containment in the input.

use crate::fw::Case;
use crate::pkt::gen::Door;
use etherparse::*;
use std::fmt::{Debug, Display, Write as _};
use std::io::Cursor;

pub struct Sink<'i> {
    pub input: &'i [u8],
    pub text: String,
    /// (signature, detail) of everything that is wrong independent of any oracle:
    /// slices outside the input, iterator misbehaviour
    pub bad: Vec<(String, String)>,
    pub evals: u64,
    /// names of the entry points that returned Ok / Err (reachability)
    pub ok: Vec<&'static str>,
    pub err: Vec<&'static str>,
    pub cur: &'static str,
    pub keep_text: bool,
    /// also Debug-render complete results (payload bytes included); expensive, part of C02's property
    pub full: bool,
}

impl<'i> Sink<'i> {
    pub fn new(input: &'i [u8], keep_text: bool) -> Sink<'i> {
        Sink { input, text: String::new(), bad: vec![], evals: 0, ok: vec![], err: vec![], cur: "", keep_text, full: !keep_text }
    }
    #[inline]
    pub fn enter(&mut self, case: &mut Case, name: &'static str) {
        case.at(name);
        self.cur = name;
        self.evals += 1;
        if self.keep_text {
            let _ = write!(self.text, "\n## {}: ", name);
        }
    }
    pub fn dbg<T: Debug + ?Sized>(&mut self, label: &str, v: &T) {
        // always format (formatting is part of the behaviour under test), keep only if wanted
        if self.keep_text {
            let _ = write!(self.text, "{}={:?}; ", label, v);
        } else {
            let mut n = NullW;
            let _ = write!(n, "{:?}", v);
        }
    }
    /// Debug rendering of a complete (payload carrying) result
    pub fn big<T: Debug + ?Sized>(&mut self, label: &str, v: &T) {
        if self.full {
            self.dbg(label, v);
        } else if self.keep_text {
            let _ = write!(self.text, "{}; ", label);
        }
    }
    pub fn disp<T: Display + ?Sized>(&mut self, label: &str, v: &T) {
        if self.keep_text {
            let _ = write!(self.text, "{}=\"{}\"; ", label, v);
        } else {
            let mut n = NullW;
            let _ = write!(n, "{}", v);
        }
    }
    /// a slice handed out by the crate: must lie inside the input
    pub fn sl(&mut self, label: &str, s: &[u8]) {
        match crate::mem::rel(self.input, s) {
            Ok((o, l)) => {
                if self.keep_text {
                    let _ = write!(self.text, "{}=({},{}); ", label, o, l);
                }
            }
            Err(e) => {
                self.bad.push((format!("slice-outside-input:{}:{}", self.cur, label), format!("{} -> {}: {}", self.cur, label, e)));
                if self.keep_text {
                    let _ = write!(self.text, "{}=OUTSIDE; ", label);
                }
            }
        }
    }
    /// a slice that is a copy (owned data): only rendered
    pub fn owned(&mut self, label: &str, s: &[u8]) {
        if self.keep_text {
            let _ = write!(self.text, "{}=[{}]; ", label, crate::fw::hex(s));
        }
    }
    pub fn res<T: Debug, E: Debug + Display>(&mut self, r: &Result<T, E>) -> bool {
        match r {
            Ok(v) => {
                self.ok.push(self.cur);
                // Debug rendering of the complete result, once, at top level
                self.big("Ok", v);
                true
            }
            Err(e) => {
                self.err.push(self.cur);
                self.dbg("Err", e);
                self.disp("msg", e);
                false
            }
        }
    }
    pub fn panicked(&mut self, name: &'static str, msg: String) {
        let loc = msg.rsplit(" @ ").next().unwrap_or("?");
        let loc = match loc.find("etherparse/src/") {
            Some(p) => &loc[p..],
            None => loc,
        };
        self.bad.push((format!("panic:{}:{}", name, loc), format!("panic escaped at entry point `{}`: {}", name, msg)));
        if self.keep_text {
            self.text.push_str("PANICKED; ");
        }
    }
    pub fn flag(&mut self, sig: &str, detail: String) {
        self.bad.push((format!("{}:{}", sig, self.cur), detail));
    }
}

struct NullW;
impl std::fmt::Write for NullW {
    fn write_str(&mut self, _s: &str) -> std::fmt::Result {
        Ok(())
    }
}

// ------------------------------------------------------------------------------------------
// iterators

pub fn drive_tcp_options(s: &mut Sink, label: &str, it: TcpOptionsIterator) {
    drive_tcp_options_ex(s, label, it, true)
}

/// `borrowed`: the iterator walks the input itself (its `rest()` must lie inside the input); false for iterators over
/// an owned copy of the options (TcpOptions / TcpHeader)
pub fn drive_tcp_options_ex(s: &mut Sink, label: &str, it: TcpOptionsIterator, borrowed: bool) {
    let area = it.rest();
    if borrowed {
        s.sl(&format!("{}.rest0", label), area);
    }
    let budget = area.len() + 2;
    let mut it = it;
    let mut n = 0usize;
    let mut prev = it.rest().len();
    loop {
        let c = it.clone();
        let item = it.next();
        // a clone taken before must behave identically
        let mut c = c;
        let item2 = c.next();
        if format!("{:?}", item) != format!("{:?}", item2) {
            s.flag("iterator-clone-differs", format!("{}: {:?} vs clone {:?}", label, item, item2));
        }
        match item {
            None => break,
            Some(x) => {
                n += 1;
                s.dbg(&format!("{}[{}]", label, n), &x);
                if let Err(e) = &x {
                    s.disp("msg", e);
                }
                let r = it.rest();
                if borrowed {
                    s.sl(&format!("{}.rest", label), r);
                }
                if r.len() >= prev && x.is_ok() {
                    s.flag("iterator-no-progress", format!("{}: rest did not shrink ({} -> {})", label, prev, r.len()));
                    break;
                }
                prev = r.len();
                if n > budget {
                    s.flag("iterator-yields-more-than-bytes", format!("{}: {} items from {} bytes", label, n, area.len()));
                    break;
                }
            }
        }
    }
    for k in 0..2 {
        if let Some(x) = it.next() {
            s.flag("iterator-not-exhausted", format!("{}: next() #{} after None returned {:?}", label, k + 1, x));
        }
    }
    s.dbg(&format!("{}.debug", label), &it);
}

pub fn drive_ndp_options(s: &mut Sink, label: &str, it: icmpv6::NdpOptionsIterator) {
    let area = it.rest();
    s.sl(&format!("{}.rest0", label), area);
    let budget = area.len() + 2;
    s.dbg(&format!("{}.debug", label), &it);
    let mut it = it;
    let mut n = 0usize;
    let mut prev = it.rest().len();
    loop {
        match it.next() {
            None => break,
            Some(x) => {
                n += 1;
                s.dbg(&format!("{}[{}]", label, n), &x);
                match &x {
                    Ok(o) => {
                        s.sl(&format!("{}[{}].bytes", label, n), o.as_bytes());
                        s.dbg("type", &o.option_type());
                        use icmpv6::NdpOptionSlice::*;
                        match o {
                            SourceLinkLayerAddress(v) => s.sl("lladdr", v.link_layer_address()),
                            TargetLinkLayerAddress(v) => s.sl("lladdr", v.link_layer_address()),
                            PrefixInformation(v) => {
                                s.dbg("prefix", &v.prefix_information());
                                s.dbg("p", &(v.prefix_length(), v.on_link(), v.autonomous_address_configuration(), v.valid_lifetime(), v.preferred_lifetime(), v.prefix()));
                            }
                            RedirectedHeader(v) => s.sl("redirected", v.redirected_packet()),
                            Mtu(v) => s.dbg("mtu", &v.mtu()),
                            Unknown(v) => s.sl("data", v.data()),
                            #[allow(unreachable_patterns)]
                            _ => {}
                        }
                    }
                    Err(e) => s.disp("msg", e),
                }
                let r = it.rest();
                s.sl(&format!("{}.rest", label), r);
                if r.len() >= prev && x.is_ok() {
                    s.flag("iterator-no-progress", format!("{}: rest did not shrink ({} -> {})", label, prev, r.len()));
                    break;
                }
                prev = r.len();
                if n > budget {
                    s.flag("iterator-yields-more-than-bytes", format!("{}: {} items from {} bytes", label, n, area.len()));
                    break;
                }
            }
        }
    }
    for k in 0..2 {
        if let Some(x) = it.next() {
            s.flag("iterator-not-exhausted", format!("{}: next() #{} after None returned {:?}", label, k + 1, x));
        }
    }
}

pub fn drive_ipv6_exts(s: &mut Sink, label: &str, exts: &Ipv6ExtensionsSlice) {
    s.sl(&format!("{}.slice", label), exts.slice());
    s.dbg("first", &exts.first_header());
    s.dbg("frag", &exts.is_fragmenting_payload());
    s.dbg("empty", &exts.is_empty());
    let budget = exts.slice().len() / 8 + 2;
    let mut it = exts.clone().into_iter();
    s.dbg(&format!("{}.iter", label), &it);
    let mut n = 0usize;
    let mut consumed = 0usize;
    loop {
        match it.next() {
            None => break,
            Some(x) => {
                n += 1;
                use Ipv6ExtensionSlice::*;
                let sl: &[u8] = match &x {
                    HopByHop(r) | Routing(r) | DestinationOptions(r) => {
                        s.sl(&format!("{}[{}].raw", label, n), r.slice());
                        s.sl("payload", r.payload());
                        s.dbg("next", &r.next_header());
                        s.dbg("hdr", &r.to_header());
                        r.slice()
                    }
                    Fragment(f) => {
                        s.sl(&format!("{}[{}].frag", label, n), f.slice());
                        s.dbg("f", &(f.next_header(), f.fragment_offset(), f.more_fragments(), f.identification(), f.is_fragmenting_payload()));
                        s.dbg("hdr", &f.to_header());
                        f.slice()
                    }
                    Authentication(a) => {
                        s.sl(&format!("{}[{}].auth", label, n), a.slice());
                        s.sl("icv", a.raw_icv());
                        s.dbg("a", &(a.next_header(), a.spi(), a.sequence_number()));
                        s.dbg("hdr", &a.to_header());
                        a.slice()
                    }
                };
                consumed += sl.len();
                if n > budget {
                    s.flag("iterator-yields-more-than-bytes", format!("{}: {} extension headers from {} bytes", label, n, exts.slice().len()));
                    break;
                }
            }
        }
    }
    if consumed != exts.slice().len() && s.bad.is_empty() {
        s.flag("ext-iterator-does-not-tile-slice", format!("{}: iterated headers cover {} of {} bytes", label, consumed, exts.slice().len()));
    }
    for k in 0..2 {
        if it.next().is_some() {
            s.flag("iterator-not-exhausted", format!("{}: next() #{} after None returned an item", label, k + 1));
        }
    }
}

// ------------------------------------------------------------------------------------------
// single slice types

fn ether_payload(s: &mut Sink, label: &str, p: &EtherPayloadSlice) {
    s.dbg(&format!("{}.et", label), &(p.ether_type, p.len_source));
    s.sl(&format!("{}.payload", label), p.payload);
}
fn lax_ether_payload(s: &mut Sink, label: &str, p: &LaxEtherPayloadSlice) {
    s.dbg(&format!("{}.et", label), &(p.ether_type, p.len_source, p.incomplete));
    s.sl(&format!("{}.payload", label), p.payload);
}
fn sll_payload(s: &mut Sink, label: &str, p: &LinuxSllPayloadSlice) {
    s.dbg(&format!("{}.pt", label), &p.protocol_type);
    s.sl(&format!("{}.payload", label), p.payload);
}
fn ip_payload(s: &mut Sink, label: &str, p: &IpPayloadSlice) {
    s.dbg(&format!("{}.ip", label), &(p.ip_number, p.fragmented, p.len_source));
    s.sl(&format!("{}.payload", label), p.payload);
}
fn lax_ip_payload(s: &mut Sink, label: &str, p: &LaxIpPayloadSlice) {
    s.dbg(&format!("{}.ip", label), &(p.ip_number, p.fragmented, p.len_source, p.incomplete));
    s.sl(&format!("{}.payload", label), p.payload);
}

pub fn eth2(s: &mut Sink, e: &Ethernet2Slice) {
    s.sl("eth.slice", e.slice());
    s.sl("eth.header", e.header_slice());
    s.sl("eth.payload", e.payload_slice());
    ether_payload(s, "eth.p", &e.payload());
    s.dbg("f", &(e.destination(), e.source(), e.ether_type(), e.fcs(), e.header_len()));
    s.dbg("hdr", &e.to_header());
    let c = e.clone();
    if &c != e {
        s.flag("clone-not-equal", "Ethernet2Slice".into());
    }
}
pub fn vlan(s: &mut Sink, v: &SingleVlanSlice) {
    s.sl("vlan.slice", v.slice());
    s.sl("vlan.header", v.header_slice());
    s.sl("vlan.payload", v.payload_slice());
    ether_payload(s, "vlan.p", &v.payload());
    s.dbg("f", &(v.priority_code_point(), v.drop_eligible_indicator(), v.vlan_identifier(), v.ether_type(), v.header_len()));
    s.dbg("hdr", &v.to_header());
}
pub fn macsec_header(s: &mut Sink, h: &MacsecHeaderSlice) {
    s.sl("macsec.header", h.slice());
    s.dbg(
        "f",
        &(
            h.tci_an_raw(),
            h.endstation_id(),
            h.tci_scb(),
            h.encrypted(),
            h.userdata_changed(),
            h.is_unmodified(),
            h.ptype(),
            h.an(),
            h.short_len(),
            h.packet_nr(),
            h.sci_present(),
            h.sci(),
        ),
    );
    s.dbg("g", &(h.next_ether_type(), h.header_len(), h.expected_payload_len()));
    s.dbg("hdr", &h.to_header());
}
pub fn macsec(s: &mut Sink, m: &MacsecSlice) {
    macsec_header(s, &m.header);
    match &m.payload {
        MacsecPayloadSlice::Unmodified(e) => ether_payload(s, "macsec.unmod", e),
        MacsecPayloadSlice::Modified(p) => s.sl("macsec.mod", p),
    }
    if let Some(e) = m.ether_payload() {
        ether_payload(s, "macsec.ep", &e);
    }
    s.dbg("net", &m.next_ether_type());
}
pub fn lax_macsec(s: &mut Sink, m: &LaxMacsecSlice) {
    macsec_header(s, &m.header);
    match &m.payload {
        LaxMacsecPayloadSlice::Unmodified(e) => lax_ether_payload(s, "macsec.unmod", e),
        LaxMacsecPayloadSlice::Modified { incomplete, payload } => {
            s.dbg("inc", incomplete);
            s.sl("macsec.mod", payload)
        }
    }
    if let Some(e) = m.ether_payload() {
        lax_ether_payload(s, "macsec.ep", &e);
    }
    s.dbg("net", &m.next_ether_type());
}
pub fn sll(s: &mut Sink, l: &LinuxSllSlice) {
    s.sl("sll.slice", l.slice());
    s.sl("sll.header", l.header_slice());
    s.sl("sll.payload", l.payload_slice());
    s.sl("sll.addr", l.sender_address());
    sll_payload(s, "sll.p", &l.payload());
    s.dbg("f", &(l.packet_type(), l.arp_hardware_type(), l.sender_address_valid_length(), l.sender_address_full(), l.protocol_type(), l.header_len()));
    s.dbg("hdr", &l.to_header());
}
pub fn sll_header(s: &mut Sink, l: &LinuxSllHeaderSlice) {
    s.sl("sllh.slice", l.slice());
    s.sl("sllh.addr", l.sender_address());
    s.dbg("f", &(l.packet_type(), l.arp_hardware_type(), l.sender_address_valid_length(), l.sender_address_full(), l.protocol_type()));
    s.dbg("hdr", &l.to_header());
}
pub fn arp(s: &mut Sink, a: &ArpPacketSlice) {
    s.sl("arp.slice", a.slice());
    s.sl("arp.sha", a.sender_hw_addr());
    s.sl("arp.spa", a.sender_protocol_addr());
    s.sl("arp.tha", a.target_hw_addr());
    s.sl("arp.tpa", a.target_protocol_addr());
    s.dbg("f", &(a.hw_addr_type(), a.proto_addr_type(), a.hw_addr_size(), a.proto_addr_size(), a.operation()));
    let p = a.to_packet();
    arp_packet(s, &p);
}
pub fn arp_packet(s: &mut Sink, p: &ArpPacket) {
    s.dbg("arp.pkt", p);
    s.owned("sha", p.sender_hw_addr());
    s.owned("spa", p.sender_protocol_addr());
    s.owned("tha", p.target_hw_addr());
    s.owned("tpa", p.target_protocol_addr());
    s.dbg("len", &(p.hw_addr_size(), p.protocol_addr_size(), p.packet_len()));
    s.owned("bytes", &p.to_bytes());
    match p.try_eth_ipv4() {
        Ok(v) => s.dbg("eth_ipv4", &v),
        Err(e) => {
            s.dbg("eth_ipv4_err", &e);
            s.disp("msg", &e);
        }
    }
    if p.clone() != *p {
        s.flag("clone-not-equal", "ArpPacket".into());
    }
}
pub fn ipv4_header(s: &mut Sink, h: &Ipv4HeaderSlice) {
    s.sl("ipv4.header", h.slice());
    s.sl("ipv4.options", h.options());
    s.dbg(
        "f",
        &(h.version(), h.ihl(), h.dcp(), h.ecn(), h.total_len(), h.identification(), h.dont_fragment(), h.more_fragments(), h.fragments_offset(), h.ttl(), h.protocol(), h.header_checksum()),
    );
    s.dbg("g", &(h.source(), h.destination(), h.source_addr(), h.destination_addr(), h.is_fragmenting_payload()));
    match h.payload_len() {
        Ok(v) => s.dbg("plen", &v),
        Err(e) => {
            s.dbg("plen_err", &e);
            s.disp("msg", &e)
        }
    }
    let hd = h.to_header();
    s.dbg("hdr", &hd);
    s.dbg("hdr.f", &(hd.ihl(), hd.header_len(), hd.payload_len(), hd.max_payload_len(), hd.calc_header_checksum(), hd.is_fragmenting_payload()));
    s.owned("hdr.bytes", &hd.to_bytes());
}
pub fn auth(s: &mut Sink, a: &IpAuthHeaderSlice) {
    s.sl("ah.slice", a.slice());
    s.sl("ah.icv", a.raw_icv());
    s.dbg("f", &(a.next_header(), a.spi(), a.sequence_number()));
    let h = a.to_header();
    s.dbg("hdr", &h);
    s.dbg("hdr.len", &h.header_len());
    s.owned("hdr.bytes", &h.to_bytes());
}
pub fn ipv4_exts(s: &mut Sink, e: &Ipv4ExtensionsSlice) {
    if let Some(a) = &e.auth {
        auth(s, a);
    }
    s.dbg("exts", &(e.is_empty(), e.to_header()));
}
pub fn ipv6_header(s: &mut Sink, h: &Ipv6HeaderSlice) {
    s.sl("ipv6.header", h.slice());
    s.dbg("f", &(h.version(), h.traffic_class(), h.ecn(), h.dscp(), h.flow_label(), h.payload_length(), h.next_header(), h.hop_limit()));
    s.dbg("g", &(h.source(), h.destination(), h.source_addr(), h.destination_addr()));
    let hd = h.to_header();
    s.dbg("hdr", &hd);
    s.owned("hdr.bytes", &hd.to_bytes());
}
pub fn raw_ext(s: &mut Sink, r: &Ipv6RawExtHeaderSlice) {
    s.sl("ext.slice", r.slice());
    s.sl("ext.payload", r.payload());
    s.dbg("next", &r.next_header());
    let h = r.to_header();
    s.dbg("hdr", &h);
    s.dbg("hdr.len", &h.header_len());
    s.owned("hdr.bytes", &h.to_bytes());
}
pub fn frag(s: &mut Sink, f: &Ipv6FragmentHeaderSlice) {
    s.sl("frag.slice", f.slice());
    s.dbg("f", &(f.next_header(), f.fragment_offset(), f.more_fragments(), f.identification(), f.is_fragmenting_payload()));
    let h = f.to_header();
    s.dbg("hdr", &h);
    s.owned("hdr.bytes", &h.to_bytes());
}
pub fn ipv4(s: &mut Sink, i: &Ipv4Slice) {
    ipv4_header(s, &i.header());
    ipv4_exts(s, &i.extensions());
    ip_payload(s, "ipv4.p", i.payload());
    s.dbg("g", &(i.payload_ip_number(), i.is_payload_fragmented()));
}
pub fn lax_ipv4(s: &mut Sink, i: &LaxIpv4Slice) {
    ipv4_header(s, &i.header());
    ipv4_exts(s, &i.extensions());
    lax_ip_payload(s, "ipv4.p", i.payload());
    s.dbg("g", &(i.payload_ip_number(), i.is_payload_fragmented()));
}
pub fn ipv6(s: &mut Sink, i: &Ipv6Slice) {
    ipv6_header(s, &i.header());
    drive_ipv6_exts(s, "ipv6.exts", i.extensions());
    ip_payload(s, "ipv6.p", i.payload());
    s.dbg("g", &i.is_payload_fragmented());
}
pub fn lax_ipv6(s: &mut Sink, i: &LaxIpv6Slice) {
    ipv6_header(s, &i.header());
    drive_ipv6_exts(s, "ipv6.exts", i.extensions());
    lax_ip_payload(s, "ipv6.p", i.payload());
    s.dbg("g", &i.is_payload_fragmented());
}
pub fn ip_headers(s: &mut Sink, h: &IpHeaders) {
    s.dbg("iph", h);
    s.dbg("iph.f", &(h.header_len(), h.next_header(), h.is_fragmenting_payload()));
    s.dbg("iph.v", &(h.ipv4().is_some(), h.ipv6().is_some()));
    // serialising is not decoding: a panic in here belongs to C12, not to C01/C02
    let mut v: Vec<u8> = vec![];
    match crate::fw::guarded(|| h.write(&mut v)) {
        Ok(Ok(())) => s.owned("iph.bytes", &v),
        Ok(Err(e)) => {
            s.dbg("iph.write_err", &e);
            s.disp("msg", &e)
        }
        Err(_) => s.dbg("iph.write", &"panicked (see C12)"),
    }
}
pub fn ip_headers_slice(s: &mut Sink, h: &IpHeadersSlice) {
    s.sl("iphs.slice", h.slice());
    s.dbg("f", &(h.is_ipv4(), h.is_ipv6(), h.source_addr(), h.destination_addr(), h.next_header(), h.payload_ip_number(), h.version(), h.header_len()));
    if let Some(v) = h.ipv4() {
        s.sl("iphs.v4", v.slice());
    }
    if let Some(v) = h.ipv4_exts() {
        s.dbg("v4e", &v.is_empty());
    }
    if let Some(v) = h.ipv6() {
        s.sl("iphs.v6", v.slice());
    }
    if let Some(v) = h.ipv6_exts() {
        s.sl("iphs.v6e", v.slice());
    }
    match h.try_to_header() {
        Ok(v) => ip_headers(s, &v),
        Err(e) => {
            s.dbg("try_to_header_err", &e);
            s.disp("msg", &e)
        }
    }
}
pub fn ip(s: &mut Sink, i: &IpSlice) {
    match i {
        IpSlice::Ipv4(v) => ipv4(s, v),
        IpSlice::Ipv6(v) => ipv6(s, v),
    }
    s.dbg("g", &(i.ipv4().is_some(), i.ipv6().is_some(), i.is_fragmenting_payload(), i.source_addr(), i.destination_addr(), i.payload_ip_number()));
    ip_payload(s, "ip.p", i.payload());
    ip_headers_slice(s, &i.header());
    let h = i.to_header();
    ip_headers(s, &h);
}
pub fn lax_ip(s: &mut Sink, i: &LaxIpSlice) {
    match i {
        LaxIpSlice::Ipv4(v) => lax_ipv4(s, v),
        LaxIpSlice::Ipv6(v) => lax_ipv6(s, v),
    }
    s.dbg("g", &(i.ipv4().is_some(), i.ipv6().is_some(), i.is_fragmenting_payload(), i.source_addr(), i.destination_addr(), i.payload_ip_number()));
    lax_ip_payload(s, "ip.p", i.payload());
}
pub fn udp(s: &mut Sink, u: &UdpSlice) {
    s.sl("udp.slice", u.slice());
    s.sl("udp.header", u.header_slice());
    s.sl("udp.payload", u.payload());
    s.dbg("f", &(u.source_port(), u.destination_port(), u.length(), u.checksum(), u.header_len(), u.header_len_u16(), u.payload_len_source()));
    s.dbg("hdr", &u.to_header());
    s.owned("hdr.bytes", &u.to_header().to_bytes());
}
pub fn tcp(s: &mut Sink, t: &TcpSlice) {
    s.sl("tcp.slice", t.slice());
    s.sl("tcp.header", t.header_slice());
    s.sl("tcp.payload", t.payload());
    s.sl("tcp.options", t.options());
    s.dbg("f", &(t.header_len(), t.source_port(), t.destination_port(), t.sequence_number(), t.acknowledgment_number(), t.data_offset()));
    s.dbg("flags", &(t.ns(), t.fin(), t.syn(), t.rst(), t.psh(), t.ack(), t.urg(), t.ece(), t.cwr()));
    s.dbg("g", &(t.window_size(), t.checksum(), t.urgent_pointer()));
    drive_tcp_options(s, "tcp.opt", t.options_iterator());
    let h = t.to_header();
    s.dbg("hdr", &h);
    s.dbg("hdr.f", &(h.header_len(), h.data_offset(), h.options.len()));
    s.owned("hdr.bytes", &h.to_bytes());
    s.dbg("csum", &(t.calc_checksum_ipv4([1, 2, 3, 4], [5, 6, 7, 8]), t.calc_checksum_ipv6([1; 16], [2; 16])));
}
pub fn tcp_header(s: &mut Sink, t: &TcpHeaderSlice) {
    s.sl("tcph.slice", t.slice());
    s.sl("tcph.options", t.options());
    s.dbg("f", &(t.source_port(), t.destination_port(), t.sequence_number(), t.acknowledgment_number(), t.data_offset()));
    s.dbg("flags", &(t.ns(), t.fin(), t.syn(), t.rst(), t.psh(), t.ack(), t.urg(), t.ece(), t.cwr()));
    s.dbg("g", &(t.window_size(), t.checksum(), t.urgent_pointer()));
    drive_tcp_options(s, "tcph.opt", t.options_iterator());
    s.dbg("hdr", &t.to_header());
}
pub fn icmpv4(s: &mut Sink, i: &Icmpv4Slice) {
    s.sl("icmp4.slice", i.slice());
    s.sl("icmp4.payload", i.payload());
    s.dbg("f", &(i.type_u8(), i.code_u8(), i.checksum(), i.bytes5to8(), i.header_len()));
    let t = i.icmp_type();
    s.dbg("type", &t);
    let h = i.header();
    s.dbg("hdr", &h);
    s.dbg("hdr.len", &h.header_len());
    s.owned("hdr.bytes", &h.to_bytes());
}
pub fn icmpv6(s: &mut Sink, i: &Icmpv6Slice) {
    s.sl("icmp6.slice", i.slice());
    s.sl("icmp6.payload", i.payload());
    s.dbg("f", &(i.type_u8(), i.code_u8(), i.checksum(), i.bytes5to8(), i.header_len()));
    s.dbg("type", &i.icmp_type());
    let h = i.header();
    s.dbg("hdr", &h);
    s.dbg("hdr.len", &h.header_len());
    s.owned("hdr.bytes", &h.to_bytes());
    s.dbg("valid", &i.is_checksum_valid([1; 16], [2; 16]));
    match i.payload_slice() {
        Ok(p) => {
            s.big("ps", &p);
            s.sl("ps.slice", p.slice());
            use icmpv6::Icmpv6PayloadSlice::*;
            match &p {
                RouterSolicitation(v) => {
                    s.sl("opts", v.options());
                    drive_ndp_options(s, "rs.opt", v.options_iterator());
                }
                RouterAdvertisement(v) => {
                    s.sl("opts", v.options());
                    s.dbg("ra", &(v.reachable_time(), v.retrans_timer()));
                    drive_ndp_options(s, "ra.opt", v.options_iterator());
                }
                NeighborSolicitation(v) => {
                    s.sl("opts", v.options());
                    s.dbg("ns", &v.target_address());
                    drive_ndp_options(s, "ns.opt", v.options_iterator());
                }
                NeighborAdvertisement(v) => {
                    s.sl("opts", v.options());
                    s.dbg("na", &v.target_address());
                    drive_ndp_options(s, "na.opt", v.options_iterator());
                }
                Redirect(v) => {
                    s.sl("opts", v.options());
                    s.dbg("rd", &(v.target_address(), v.destination_address()));
                    drive_ndp_options(s, "rd.opt", v.options_iterator());
                }
                DestinationUnreachable(v) => {
                    s.sl("du.slice", v.slice());
                    s.sl("invoking", v.invoking_packet());
                    quoted(s, v.as_lax_ip_slice());
                }
                PacketTooBig(v) => {
                    s.sl("ptb.slice", v.slice());
                    s.sl("invoking", v.invoking_packet());
                    quoted(s, v.as_lax_ip_slice());
                }
                TimeExceeded(v) => {
                    s.sl("te.slice", v.slice());
                    s.sl("invoking", v.invoking_packet());
                    quoted(s, v.as_lax_ip_slice());
                }
                ParameterProblem(v) => {
                    s.sl("pp.slice", v.slice());
                    s.sl("invoking", v.invoking_packet());
                    quoted(s, v.as_lax_ip_slice());
                }
                EchoRequest(v) => {
                    s.sl("echo.slice", v.slice());
                    s.sl("echo.data", v.data());
                }
                EchoReply(v) => {
                    s.sl("echo.slice", v.slice());
                    s.sl("echo.data", v.data());
                }
                Raw(r) => s.sl("raw", r),
                _ => {}
            }
            // conversion into the owned payload + the part that stays borrowed
            match p.to_payload() {
                Some((owned, rest)) => {
                    s.dbg("ps.owned", &owned);
                    s.sl("ps.rest", rest);
                }
                None => s.dbg("ps.owned", &"-"),
            }
            match i.icmp_type().payload_from_slice(i.payload()) {
                Ok(Some((owned, rest))) => {
                    s.dbg("pfs.owned", &owned);
                    s.sl("pfs.rest", rest);
                }
                Ok(None) => s.dbg("pfs", &"-"),
                Err(e) => s.dbg("pfs.err", &e),
            }
        }
        Err(e) => {
            s.dbg("ps_err", &e);
            s.disp("msg", &e);
        }
    }
}
/// the packet quoted by an ICMPv6 error message, decoded leniently (one level deep: a quoted ICMP error inside it is
/// not followed again)
fn quoted(s: &mut Sink, r: Result<(LaxIpSlice, Option<(err::ipv6_exts::HeaderSliceError, err::Layer)>), err::ip::LaxHeaderSliceError>) {
    match r {
        Ok((ip, stop)) => {
            lax_ip(s, &ip);
            s.dbg("quoted.stop", &stop);
        }
        Err(e) => {
            s.dbg("quoted.err", &e);
            s.disp("quoted.msg", &e);
        }
    }
}
pub fn transport(s: &mut Sink, t: &TransportSlice) {
    match t {
        TransportSlice::Udp(u) => udp(s, u),
        TransportSlice::Tcp(u) => tcp(s, u),
        TransportSlice::Icmpv4(u) => icmpv4(s, u),
        TransportSlice::Icmpv6(u) => icmpv6(s, u),
    }
}
pub fn link(s: &mut Sink, l: &LinkSlice) {
    match l {
        LinkSlice::Ethernet2(e) => eth2(s, e),
        LinkSlice::LinuxSll(e) => sll(s, e),
        LinkSlice::EtherPayload(e) => ether_payload(s, "link.ep", e),
        LinkSlice::LinuxSllPayload(e) => sll_payload(s, "link.sp", e),
    }
    s.dbg("hdr", &l.to_header());
    if let Some(e) = l.ether_payload() {
        ether_payload(s, "link.e", &e);
    }
    sll_payload(s, "link.s", &l.sll_payload());
}

// ------------------------------------------------------------------------------------------
// whole packet results

pub fn sliced(s: &mut Sink, p: &SlicedPacket) {
    if let Some(l) = &p.link {
        link(s, l);
    }
    for (i, e) in p.link_exts.iter().enumerate() {
        s.dbg("ext#", &i);
        match e {
            LinkExtSlice::Vlan(v) => vlan(s, v),
            LinkExtSlice::Macsec(m) => macsec(s, m),
        }
        s.dbg("ext.f", &(e.header_len(), e.to_header()));
        if let Some(ep) = e.ether_payload() {
            ether_payload(s, "ext.ep", &ep);
        }
    }
    if let Some(n) = &p.net {
        match n {
            NetSlice::Ipv4(v) => ipv4(s, v),
            NetSlice::Ipv6(v) => ipv6(s, v),
            NetSlice::Arp(v) => arp(s, v),
        }
        s.dbg("net.f", &(n.is_ip(), n.is_ipv4(), n.is_ipv6(), n.is_arp(), n.ipv4_ref().is_some(), n.ipv6_ref().is_some(), n.arp_ref().is_some()));
        if let Some(ip) = n.ip_payload_ref() {
            ip_payload(s, "net.ipp", ip);
        }
    }
    if let Some(t) = &p.transport {
        transport(s, t);
    }
    s.dbg("pet", &p.payload_ether_type());
    if let Some(e) = p.ether_payload() {
        ether_payload(s, "p.ep", &e);
    }
    if let Some(i) = p.ip_payload() {
        ip_payload(s, "p.ipp", i);
    }
    s.dbg("frag", &p.is_ip_payload_fragmented());
    if let Some(v) = p.vlan() {
        s.dbg("vlan", &v.to_header());
        ether_payload(s, "vlan.ep", &v.payload());
    }
    s.dbg("vlan_ids", &p.vlan_ids());
    if p.clone() != *p {
        s.flag("clone-not-equal", "SlicedPacket".into());
    }
}

pub fn lax_sliced(s: &mut Sink, p: &LaxSlicedPacket) {
    if let Some(l) = &p.link {
        link(s, l);
    }
    for (i, e) in p.link_exts.iter().enumerate() {
        s.dbg("ext#", &i);
        match e {
            LaxLinkExtSlice::Vlan(v) => vlan(s, v),
            LaxLinkExtSlice::Macsec(m) => lax_macsec(s, m),
        }
        s.dbg("ext.f", &(e.header_len(), e.to_header()));
        if let Some(ep) = e.payload() {
            lax_ether_payload(s, "ext.ep", &ep);
        }
    }
    if let Some(n) = &p.net {
        match n {
            LaxNetSlice::Ipv4(v) => lax_ipv4(s, v),
            LaxNetSlice::Ipv6(v) => lax_ipv6(s, v),
            LaxNetSlice::Arp(v) => arp(s, v),
        }
        if let Some(ip) = n.ip_payload_ref() {
            lax_ip_payload(s, "net.ipp", ip);
        }
    }
    if let Some(t) = &p.transport {
        transport(s, t);
    }
    if let Some((e, l)) = &p.stop_err {
        s.dbg("stop", &(e, l));
        s.disp("stop.msg", e);
        s.disp("stop.layer", l);
        s.dbg("title", &l.error_title());
    }
    if let Some(e) = p.ether_payload() {
        lax_ether_payload(s, "p.ep", &e);
    }
    if let Some(i) = p.ip_payload() {
        lax_ip_payload(s, "p.ipp", i);
    }
    if let Some(v) = p.vlan() {
        s.dbg("vlan", &v.to_header());
    }
    s.dbg("vlan_ids", &p.vlan_ids());
    if p.clone() != *p {
        s.flag("clone-not-equal", "LaxSlicedPacket".into());
    }
}

pub fn payload_slice(s: &mut Sink, p: &PayloadSlice) {
    s.sl("payload", p.slice());
    match p {
        PayloadSlice::Ether(e) => ether_payload(s, "pl.e", e),
        PayloadSlice::Ip(i) => ip_payload(s, "pl.i", i),
        _ => {}
    }
    s.dbg("pl", p);
}
pub fn lax_payload_slice(s: &mut Sink, p: &LaxPayloadSlice) {
    s.sl("payload", p.slice());
    match p {
        LaxPayloadSlice::Ether(e) => lax_ether_payload(s, "pl.e", e),
        LaxPayloadSlice::Ip(i) => lax_ip_payload(s, "pl.i", i),
        LaxPayloadSlice::LinuxSll(l) => sll_payload(s, "pl.s", l),
        _ => {}
    }
    s.dbg("pl", p);
}

pub fn headers(s: &mut Sink, p: &PacketHeaders) {
    payload_slice(s, &p.payload);
    s.dbg("vlan", &(p.vlan(), p.vlan_ids()));
    if let Some(NetHeaders::Arp(a)) = &p.net {
        arp_packet(s, a);
    }
    if let Some(n) = &p.net {
        match n {
            NetHeaders::Ipv4(h, e) => ip_headers(s, &IpHeaders::Ipv4(h.clone(), e.clone())),
            NetHeaders::Ipv6(h, e) => ip_headers(s, &IpHeaders::Ipv6(h.clone(), e.clone())),
            _ => {}
        }
    }
    if let Some(t) = &p.transport {
        s.dbg("t.len", &t.header_len());
    }
    if p.clone() != *p {
        s.flag("clone-not-equal", "PacketHeaders".into());
    }
}
pub fn lax_headers(s: &mut Sink, p: &LaxPacketHeaders) {
    lax_payload_slice(s, &p.payload);
    s.dbg("vlan", &(p.vlan(), p.vlan_ids()));
    if let Some((e, l)) = &p.stop_err {
        s.disp("stop.msg", e);
        s.disp("stop.layer", l);
    }
    if let Some(NetHeaders::Arp(a)) = &p.net {
        arp_packet(s, a);
    }
    if let Some(n) = &p.net {
        match n {
            NetHeaders::Ipv4(h, e) => ip_headers(s, &IpHeaders::Ipv4(h.clone(), e.clone())),
            NetHeaders::Ipv6(h, e) => ip_headers(s, &IpHeaders::Ipv6(h.clone(), e.clone())),
            _ => {}
        }
    }
    if p.clone() != *p {
        s.flag("clone-not-equal", "LaxPacketHeaders".into());
    }
}

// ------------------------------------------------------------------------------------------
// readers

/// `read`-style decoder over a cursor: result + how many bytes were consumed
macro_rules! rd {
    ($s:expr, $case:expr, $name:literal, $bytes:expr, |$c:ident| $call:expr) => {{
        $s.enter($case, $name);
        let mut $c = Cursor::new($bytes);
        let r = crate::fw::guarded(|| $call);
        let pos = $c.position();
        match r {
            Err(msg) => $s.panicked($name, msg),
            Ok(r) => {
                match &r {
                    Ok(v) => {
                        $s.ok.push($name);
                        $s.dbg("Ok", v);
                    }
                    Err(e) => {
                        $s.err.push($name);
                        $s.dbg("Err", e);
                        $s.disp("msg", e);
                    }
                }
                $s.dbg("pos", &pos);
                if pos as usize > $bytes.len() {
                    $s.flag("reader-position-beyond-input", format!("{}: cursor at {} of {}", $name, pos, $bytes.len()));
                }
            }
        }
    }};
}

// ------------------------------------------------------------------------------------------
// doors

/// run every entry point that is meaningful for `door` on `b` and observe everything
/// one entry point: a panic inside is recorded for this entry point and the remaining entry points still run
macro_rules! ep {
    ($s:ident, $case:ident, $name:literal, $body:block) => {{
        $s.enter($case, $name);
        let r = crate::fw::guarded(|| $body);
        if let Err(msg) = r {
            $s.panicked($name, msg);
        }
    }};
}

pub fn run_door(door: Door, b: &[u8], s: &mut Sink, case: &mut Case) {
    match door {
        Door::Eth2 => {
            ep!(s, case, "SlicedPacket::from_ethernet", {
            let r = SlicedPacket::from_ethernet(b);
            if s.res(&r) {
                sliced(s, r.as_ref().unwrap());
            }
            });
            ep!(s, case, "LaxSlicedPacket::from_ethernet", {
            let r = LaxSlicedPacket::from_ethernet(b);
            if s.res(&r) {
                lax_sliced(s, r.as_ref().unwrap());
            }
            });
            ep!(s, case, "PacketHeaders::from_ethernet_slice", {
            let r = PacketHeaders::from_ethernet_slice(b);
            if s.res(&r) {
                headers(s, r.as_ref().unwrap());
            }
            });
            ep!(s, case, "LaxPacketHeaders::from_ethernet", {
            let r = LaxPacketHeaders::from_ethernet(b);
            if s.res(&r) {
                lax_headers(s, r.as_ref().unwrap());
            }
            });
            ep!(s, case, "Ethernet2Slice::from_slice_without_fcs", {
            let r = Ethernet2Slice::from_slice_without_fcs(b);
            if s.res(&r) {
                eth2(s, r.as_ref().unwrap());
            }
            });
            ep!(s, case, "Ethernet2Slice::from_slice_with_crc32_fcs", {
            let r = Ethernet2Slice::from_slice_with_crc32_fcs(b);
            if s.res(&r) {
                eth2(s, r.as_ref().unwrap());
            }
            });
            ep!(s, case, "Ethernet2HeaderSlice::from_slice", {
            let r = Ethernet2HeaderSlice::from_slice(b);
            if s.res(&r) {
                let h = r.as_ref().unwrap();
                s.sl("slice", h.slice());
                s.dbg("f", &(h.destination(), h.source(), h.ether_type(), h.to_header()));
            }
            });
            ep!(s, case, "Ethernet2Header::from_slice", {
            let r = Ethernet2Header::from_slice(b);
            if s.res(&r) {
                let (h, rest) = r.as_ref().unwrap();
                s.dbg("h", h);
                s.sl("rest", rest);
            }
            });
            rd!(s, case, "Ethernet2Header::read", b, |c| Ethernet2Header::read(&mut c));
        }
        Door::Sll => {
            ep!(s, case, "SlicedPacket::from_linux_sll", {
            let r = SlicedPacket::from_linux_sll(b);
            if s.res(&r) {
                sliced(s, r.as_ref().unwrap());
            }
            });
            ep!(s, case, "LaxPacketHeaders::from_linux_sll", {
            let r = LaxPacketHeaders::from_linux_sll(b);
            if s.res(&r) {
                lax_headers(s, r.as_ref().unwrap());
            }
            });
            ep!(s, case, "LinuxSllSlice::from_slice", {
            let r = LinuxSllSlice::from_slice(b);
            if s.res(&r) {
                sll(s, r.as_ref().unwrap());
            }
            });
            ep!(s, case, "LinuxSllHeaderSlice::from_slice", {
            let r = LinuxSllHeaderSlice::from_slice(b);
            if s.res(&r) {
                sll_header(s, r.as_ref().unwrap());
            }
            });
            ep!(s, case, "LinuxSllHeader::from_slice", {
            let r = LinuxSllHeader::from_slice(b);
            if s.res(&r) {
                let (h, rest) = r.as_ref().unwrap();
                s.dbg("h", h);
                s.sl("rest", rest);
                s.owned("bytes", &h.to_bytes());
            }
            });
            rd!(s, case, "LinuxSllHeader::read", b, |c| LinuxSllHeader::read(&mut c));
        }
        Door::Ether(t) => {
            let et = EtherType(t);
            ep!(s, case, "SlicedPacket::from_ether_type", {
            let r = SlicedPacket::from_ether_type(et, b);
            if s.res(&r) {
                sliced(s, r.as_ref().unwrap());
            }
            });
            ep!(s, case, "LaxSlicedPacket::from_ether_type", {
            let r = LaxSlicedPacket::from_ether_type(et, b);
            s.big("value", &r);
            lax_sliced(s, &r);
            });
            ep!(s, case, "PacketHeaders::from_ether_type", {
            let r = PacketHeaders::from_ether_type(et, b);
            if s.res(&r) {
                headers(s, r.as_ref().unwrap());
            }
            });
            ep!(s, case, "LaxPacketHeaders::from_ether_type", {
            let r = LaxPacketHeaders::from_ether_type(et, b);
            s.big("value", &r);
            lax_headers(s, &r);
            });
            match t {
                0x8100 | 0x88A8 | 0x9100 => {
                    ep!(s, case, "SingleVlanSlice::from_slice", {
                    let r = SingleVlanSlice::from_slice(b);
                    if s.res(&r) {
                        vlan(s, r.as_ref().unwrap());
                    }
                    });
                    ep!(s, case, "SingleVlanHeaderSlice::from_slice", {
                    let r = SingleVlanHeaderSlice::from_slice(b);
                    if s.res(&r) {
                        let h = r.as_ref().unwrap();
                        s.sl("slice", h.slice());
                        s.dbg("f", &(h.priority_code_point(), h.drop_eligible_indicator(), h.vlan_identifier(), h.ether_type(), h.to_header()));
                    }
                    });
                    ep!(s, case, "SingleVlanHeader::from_slice", {
                    let r = SingleVlanHeader::from_slice(b);
                    if s.res(&r) {
                        let (h, rest) = r.as_ref().unwrap();
                        s.dbg("h", h);
                        s.sl("rest", rest);
                    }
                    });
                    rd!(s, case, "SingleVlanHeader::read", b, |c| SingleVlanHeader::read(&mut c));
                }
                0x88E5 => {
                    ep!(s, case, "MacsecSlice::from_slice", {
                    let r = MacsecSlice::from_slice(b);
                    if s.res(&r) {
                        macsec(s, r.as_ref().unwrap());
                    }
                    });
                    ep!(s, case, "LaxMacsecSlice::from_slice", {
                    let r = LaxMacsecSlice::from_slice(b);
                    if s.res(&r) {
                        lax_macsec(s, r.as_ref().unwrap());
                    }
                    });
                    ep!(s, case, "MacsecHeaderSlice::from_slice", {
                    let r = MacsecHeaderSlice::from_slice(b);
                    if s.res(&r) {
                        macsec_header(s, r.as_ref().unwrap());
                    }
                    });
                    ep!(s, case, "MacsecHeader::from_slice", {
                    let r = MacsecHeader::from_slice(b);
                    if s.res(&r) {
                        let h = r.as_ref().unwrap();
                        s.dbg("h", h);
                        s.dbg("f", &(h.header_len(), h.expected_payload_len(), h.next_ether_type(), h.encrypted(), h.userdata_changed()));
                        s.owned("bytes", &h.to_bytes());
                    }
                    });
                    rd!(s, case, "MacsecHeader::read", b, |c| MacsecHeader::read(&mut c));
                }
                0x0806 => {
                    ep!(s, case, "ArpPacketSlice::from_slice", {
                    let r = ArpPacketSlice::from_slice(b);
                    if s.res(&r) {
                        arp(s, r.as_ref().unwrap());
                    }
                    });
                    ep!(s, case, "ArpPacket::from_slice", {
                    let r = ArpPacket::from_slice(b);
                    if s.res(&r) {
                        arp_packet(s, r.as_ref().unwrap());
                    }
                    });
                    rd!(s, case, "ArpPacket::read", b, |c| ArpPacket::read(&mut c));
                }
                _ => {}
            }
        }
        Door::Ip => {
            ep!(s, case, "SlicedPacket::from_ip", {
            let r = SlicedPacket::from_ip(b);
            if s.res(&r) {
                sliced(s, r.as_ref().unwrap());
            }
            });
            ep!(s, case, "LaxSlicedPacket::from_ip", {
            let r = LaxSlicedPacket::from_ip(b);
            if s.res(&r) {
                lax_sliced(s, r.as_ref().unwrap());
            }
            });
            ep!(s, case, "PacketHeaders::from_ip_slice", {
            let r = PacketHeaders::from_ip_slice(b);
            if s.res(&r) {
                headers(s, r.as_ref().unwrap());
            }
            });
            ep!(s, case, "LaxPacketHeaders::from_ip", {
            let r = LaxPacketHeaders::from_ip(b);
            if s.res(&r) {
                lax_headers(s, r.as_ref().unwrap());
            }
            });
            ep!(s, case, "IpSlice::from_slice", {
            let r = IpSlice::from_slice(b);
            if s.res(&r) {
                ip(s, r.as_ref().unwrap());
            }
            });
            ep!(s, case, "LaxIpSlice::from_slice", {
            let r = LaxIpSlice::from_slice(b);
            if s.res(&r) {
                let (i, stop) = r.as_ref().unwrap();
                lax_ip(s, i);
                s.dbg("stop", stop);
            }
            });
            ep!(s, case, "Ipv4Slice::from_slice", {
            let r = Ipv4Slice::from_slice(b);
            if s.res(&r) {
                ipv4(s, r.as_ref().unwrap());
            }
            });
            ep!(s, case, "LaxIpv4Slice::from_slice", {
            let r = LaxIpv4Slice::from_slice(b);
            if s.res(&r) {
                let (i, stop) = r.as_ref().unwrap();
                lax_ipv4(s, i);
                s.dbg("stop", stop);
            }
            });
            ep!(s, case, "Ipv6Slice::from_slice", {
            let r = Ipv6Slice::from_slice(b);
            if s.res(&r) {
                ipv6(s, r.as_ref().unwrap());
            }
            });
            ep!(s, case, "Ipv6Slice::from_slice_lax", {
            let r = Ipv6Slice::from_slice_lax(b);
            if s.res(&r) {
                ipv6(s, r.as_ref().unwrap());
            }
            });
            ep!(s, case, "LaxIpv6Slice::from_slice", {
            let r = LaxIpv6Slice::from_slice(b);
            if s.res(&r) {
                let (i, stop) = r.as_ref().unwrap();
                lax_ipv6(s, i);
                s.dbg("stop", stop);
            }
            });
            ep!(s, case, "IpHeaders::from_slice", {
            let r = IpHeaders::from_slice(b);
            if s.res(&r) {
                let (h, p) = r.as_ref().unwrap();
                ip_headers(s, h);
                ip_payload(s, "p", p);
            }
            });
            ep!(s, case, "IpHeaders::from_slice_lax", {
            let r = IpHeaders::from_slice_lax(b);
            if s.res(&r) {
                let (h, p, stop) = r.as_ref().unwrap();
                ip_headers(s, h);
                lax_ip_payload(s, "p", p);
                s.dbg("stop", stop);
            }
            });
            ep!(s, case, "IpHeaders::from_ipv4_slice", {
            let r = IpHeaders::from_ipv4_slice(b);
            if s.res(&r) {
                let (h, p) = r.as_ref().unwrap();
                ip_headers(s, h);
                ip_payload(s, "p", p);
            }
            });
            ep!(s, case, "IpHeaders::from_ipv4_slice_lax", {
            let r = IpHeaders::from_ipv4_slice_lax(b);
            if s.res(&r) {
                let (h, p, stop) = r.as_ref().unwrap();
                ip_headers(s, h);
                lax_ip_payload(s, "p", p);
                s.dbg("stop", stop);
            }
            });
            ep!(s, case, "IpHeaders::from_ipv6_slice", {
            let r = IpHeaders::from_ipv6_slice(b);
            if s.res(&r) {
                let (h, p) = r.as_ref().unwrap();
                ip_headers(s, h);
                ip_payload(s, "p", p);
            }
            });
            ep!(s, case, "IpHeaders::from_ipv6_slice_lax", {
            let r = IpHeaders::from_ipv6_slice_lax(b);
            if s.res(&r) {
                let (h, p, stop) = r.as_ref().unwrap();
                ip_headers(s, h);
                lax_ip_payload(s, "p", p);
                s.dbg("stop", stop);
            }
            });
            ep!(s, case, "Ipv4HeaderSlice::from_slice", {
            let r = Ipv4HeaderSlice::from_slice(b);
            if s.res(&r) {
                ipv4_header(s, r.as_ref().unwrap());
            }
            });
            ep!(s, case, "Ipv4Header::from_slice", {
            let r = Ipv4Header::from_slice(b);
            if s.res(&r) {
                let (h, rest) = r.as_ref().unwrap();
                s.dbg("h", h);
                s.sl("rest", rest);
            }
            });
            ep!(s, case, "Ipv6HeaderSlice::from_slice", {
            let r = Ipv6HeaderSlice::from_slice(b);
            if s.res(&r) {
                ipv6_header(s, r.as_ref().unwrap());
            }
            });
            ep!(s, case, "Ipv6Header::from_slice", {
            let r = Ipv6Header::from_slice(b);
            if s.res(&r) {
                let (h, rest) = r.as_ref().unwrap();
                s.dbg("h", h);
                s.sl("rest", rest);
            }
            });
            rd!(s, case, "IpHeaders::read", b, |c| IpHeaders::read(&mut c));
            rd!(s, case, "Ipv4Header::read", b, |c| Ipv4Header::read(&mut c));
            rd!(s, case, "Ipv6Header::read", b, |c| Ipv6Header::read(&mut c));
            if !b.is_empty() {
                rd!(s, case, "Ipv4Header::read_without_version", &b[1..], |c| Ipv4Header::read_without_version(&mut c, b[0]));
                rd!(s, case, "Ipv6Header::read_without_version", &b[1..], |c| Ipv6Header::read_without_version(&mut c, b[0]));
            }
        }
        Door::Ipv4Exts(n) => {
            let ipn = IpNumber(n);
            ep!(s, case, "Ipv4ExtensionsSlice::from_slice", {
            let r = Ipv4ExtensionsSlice::from_slice(ipn, b);
            if s.res(&r) {
                let (e, next, rest) = r.as_ref().unwrap();
                ipv4_exts(s, e);
                s.dbg("next", next);
                s.sl("rest", rest);
            }
            });
            ep!(s, case, "Ipv4ExtensionsSlice::from_slice_lax", {
            let (e, next, rest, stop) = Ipv4ExtensionsSlice::from_slice_lax(ipn, b);
            ipv4_exts(s, &e);
            s.dbg("next", &next);
            s.sl("rest", rest);
            s.dbg("stop", &stop);
            });
            ep!(s, case, "Ipv4Extensions::from_slice", {
            let r = Ipv4Extensions::from_slice(ipn, b);
            if s.res(&r) {
                let (e, next, rest) = r.as_ref().unwrap();
                s.dbg("e", &(e, next, e.header_len(), e.is_empty(), e.next_header(ipn)));
                s.sl("rest", rest);
            }
            });
            ep!(s, case, "Ipv4Extensions::from_slice_lax", {
            let (e, next, rest, stop) = Ipv4Extensions::from_slice_lax(ipn, b);
            s.dbg("e", &(&e, next, &stop));
            s.sl("rest", rest);
            });
            if n == 51 {
                ep!(s, case, "IpAuthHeaderSlice::from_slice", {
                let r = IpAuthHeaderSlice::from_slice(b);
                if s.res(&r) {
                    auth(s, r.as_ref().unwrap());
                }
                });
                ep!(s, case, "IpAuthHeader::from_slice", {
                let r = IpAuthHeader::from_slice(b);
                if s.res(&r) {
                    let (h, rest) = r.as_ref().unwrap();
                    s.dbg("h", h);
                    s.sl("rest", rest);
                }
                });
                rd!(s, case, "IpAuthHeader::read", b, |c| IpAuthHeader::read(&mut c));
            }
            rd!(s, case, "Ipv4Extensions::read", b, |c| Ipv4Extensions::read(&mut c, ipn));
        }
        Door::Ipv6Exts(n) => {
            let ipn = IpNumber(n);
            ep!(s, case, "Ipv6ExtensionsSlice::from_slice", {
            let r = Ipv6ExtensionsSlice::from_slice(ipn, b);
            if s.res(&r) {
                let (e, next, rest) = r.as_ref().unwrap();
                drive_ipv6_exts(s, "exts", e);
                s.dbg("next", next);
                s.sl("rest", rest);
            }
            });
            ep!(s, case, "Ipv6ExtensionsSlice::from_slice_lax", {
            let (e, next, rest, stop) = Ipv6ExtensionsSlice::from_slice_lax(ipn, b);
            drive_ipv6_exts(s, "exts", &e);
            s.dbg("next", &next);
            s.sl("rest", rest);
            s.dbg("stop", &stop);
            });
            ep!(s, case, "Ipv6Extensions::from_slice", {
            let r = Ipv6Extensions::from_slice(ipn, b);
            if s.res(&r) {
                let (e, next, rest) = r.as_ref().unwrap();
                s.dbg("e", &(e, next, e.header_len(), e.is_empty(), e.is_fragmenting_payload(), e.next_header(ipn)));
                s.sl("rest", rest);
            }
            });
            ep!(s, case, "Ipv6Extensions::from_slice_lax", {
            let (e, next, rest, stop) = Ipv6Extensions::from_slice_lax(ipn, b);
            s.dbg("e", &(&e, next, &stop));
            s.sl("rest", rest);
            });
            ep!(s, case, "Ipv6Header::skip_header_extension_in_slice", {
            let r = Ipv6Header::skip_header_extension_in_slice(b, ipn);
            if s.res(&r) {
                let (next, rest) = r.as_ref().unwrap();
                s.dbg("next", next);
                s.sl("rest", rest);
            }
            });
            ep!(s, case, "Ipv6Header::skip_all_header_extensions_in_slice", {
            let r = Ipv6Header::skip_all_header_extensions_in_slice(b, ipn);
            if s.res(&r) {
                let (next, rest) = r.as_ref().unwrap();
                s.dbg("next", next);
                s.sl("rest", rest);
            }
            });
            rd!(s, case, "Ipv6Header::skip_header_extension", b, |c| Ipv6Header::skip_header_extension(&mut c, ipn));
            rd!(s, case, "Ipv6Header::skip_all_header_extensions", b, |c| Ipv6Header::skip_all_header_extensions(&mut c, ipn));
            rd!(s, case, "Ipv6Extensions::read", b, |c| Ipv6Extensions::read(&mut c, ipn));
            match n {
                0 | 43 | 60 => {
                    ep!(s, case, "Ipv6RawExtHeaderSlice::from_slice", {
                    let r = Ipv6RawExtHeaderSlice::from_slice(b);
                    if s.res(&r) {
                        raw_ext(s, r.as_ref().unwrap());
                    }
                    });
                    ep!(s, case, "Ipv6RawExtHeader::from_slice", {
                    let r = Ipv6RawExtHeader::from_slice(b);
                    if s.res(&r) {
                        let (h, rest) = r.as_ref().unwrap();
                        s.dbg("h", h);
                        s.sl("rest", rest);
                    }
                    });
                    rd!(s, case, "Ipv6RawExtHeader::read", b, |c| Ipv6RawExtHeader::read(&mut c));
                }
                44 => {
                    ep!(s, case, "Ipv6FragmentHeaderSlice::from_slice", {
                    let r = Ipv6FragmentHeaderSlice::from_slice(b);
                    if s.res(&r) {
                        frag(s, r.as_ref().unwrap());
                    }
                    });
                    ep!(s, case, "Ipv6FragmentHeader::from_slice", {
                    let r = Ipv6FragmentHeader::from_slice(b);
                    if s.res(&r) {
                        let (h, rest) = r.as_ref().unwrap();
                        s.dbg("h", h);
                        s.sl("rest", rest);
                    }
                    });
                    rd!(s, case, "Ipv6FragmentHeader::read", b, |c| Ipv6FragmentHeader::read(&mut c));
                }
                51 => {
                    ep!(s, case, "IpAuthHeaderSlice::from_slice", {
                    let r = IpAuthHeaderSlice::from_slice(b);
                    if s.res(&r) {
                        auth(s, r.as_ref().unwrap());
                    }
                    });
                    rd!(s, case, "IpAuthHeader::read", b, |c| IpAuthHeader::read(&mut c));
                }
                _ => {}
            }
        }
        Door::Transport(n) => match n {
            17 => {
                ep!(s, case, "UdpSlice::from_slice", {
                let r = UdpSlice::from_slice(b);
                if s.res(&r) {
                    udp(s, r.as_ref().unwrap());
                }
                });
                ep!(s, case, "UdpSlice::from_slice_lax", {
                let r = UdpSlice::from_slice_lax(b);
                if s.res(&r) {
                    udp(s, r.as_ref().unwrap());
                }
                });
                ep!(s, case, "UdpHeaderSlice::from_slice", {
                let r = UdpHeaderSlice::from_slice(b);
                if s.res(&r) {
                    let h = r.as_ref().unwrap();
                    s.sl("slice", h.slice());
                    s.dbg("f", &(h.source_port(), h.destination_port(), h.length(), h.checksum(), h.to_header()));
                }
                });
                ep!(s, case, "UdpHeader::from_slice", {
                let r = UdpHeader::from_slice(b);
                if s.res(&r) {
                    let (h, rest) = r.as_ref().unwrap();
                    s.dbg("h", h);
                    s.sl("rest", rest);
                }
                });
                rd!(s, case, "UdpHeader::read", b, |c| UdpHeader::read(&mut c));
            }
            6 => {
                ep!(s, case, "TcpSlice::from_slice", {
                let r = TcpSlice::from_slice(b);
                if s.res(&r) {
                    tcp(s, r.as_ref().unwrap());
                }
                });
                ep!(s, case, "TcpHeaderSlice::from_slice", {
                let r = TcpHeaderSlice::from_slice(b);
                if s.res(&r) {
                    tcp_header(s, r.as_ref().unwrap());
                }
                });
                ep!(s, case, "TcpHeader::from_slice", {
                let r = TcpHeader::from_slice(b);
                if s.res(&r) {
                    let (h, rest) = r.as_ref().unwrap();
                    s.dbg("h", h);
                    s.sl("rest", rest);
                    s.dbg("opts", &h.options_iterator());
                }
                });
                rd!(s, case, "TcpHeader::read", b, |c| TcpHeader::read(&mut c));
                ep!(s, case, "TcpOptionsIterator::from_slice", {
                drive_tcp_options(s, "raw.opt", TcpOptionsIterator::from_slice(b));
                });
            }
            1 => {
                ep!(s, case, "Icmpv4Slice::from_slice", {
                let r = Icmpv4Slice::from_slice(b);
                if s.res(&r) {
                    icmpv4(s, r.as_ref().unwrap());
                }
                });
                ep!(s, case, "Icmpv4Header::from_slice", {
                let r = Icmpv4Header::from_slice(b);
                if s.res(&r) {
                    let (h, rest) = r.as_ref().unwrap();
                    s.dbg("h", h);
                    s.sl("rest", rest);
                }
                });
                rd!(s, case, "Icmpv4Header::read", b, |c| Icmpv4Header::read(&mut c));
            }
            58 => {
                ep!(s, case, "Icmpv6Slice::from_slice", {
                let r = Icmpv6Slice::from_slice(b);
                if s.res(&r) {
                    icmpv6(s, r.as_ref().unwrap());
                }
                });
                ep!(s, case, "Icmpv6Header::from_slice", {
                let r = Icmpv6Header::from_slice(b);
                if s.res(&r) {
                    let (h, rest) = r.as_ref().unwrap();
                    s.dbg("h", h);
                    s.sl("rest", rest);
                }
                });
                rd!(s, case, "Icmpv6Header::read", b, |c| Icmpv6Header::read(&mut c));
                ep!(s, case, "NdpOptionsIterator::from_slice", {
                drive_ndp_options(s, "raw.ndp", icmpv6::NdpOptionsIterator::from_slice(b));
                });
            }
            2 => {
                ep!(s, case, "IgmpHeader::from_slice", {
                let r = IgmpHeader::from_slice(b);
                if s.res(&r) {
                    let (h, rest) = r.as_ref().unwrap();
                    s.dbg("h", h);
                    s.sl("rest", rest);
                    s.owned("bytes", &h.to_bytes());
                }
                });
            }
            _ => {}
        },
        Door::TcpOpts => {
            ep!(s, case, "TcpOptionsIterator::from_slice", {
            drive_tcp_options(s, "raw.opt", TcpOptionsIterator::from_slice(b));
            s.ok.push("TcpOptionsIterator::from_slice");
            });
            ep!(s, case, "TcpOptions::try_from_slice", {
            let r = TcpOptions::try_from_slice(b);
            if s.res(&r) {
                let o = r.as_ref().unwrap();
                s.dbg("len", &(o.len(), o.data_offset(), o.is_empty()));
                drive_tcp_options_ex(s, "opts.iter", o.elements_iter(), false);
            }
            });
        }
        Door::NdpOpts => {
            ep!(s, case, "NdpOptionsIterator::from_slice", {
            drive_ndp_options(s, "raw.ndp", icmpv6::NdpOptionsIterator::from_slice(b));
            s.ok.push("NdpOptionsIterator::from_slice");
            });
        }
    }
}

/// the checksum helpers read raw memory too
pub fn checksum_touch(b: &[u8], s: &mut Sink, case: &mut Case) {
    s.enter(case, "checksum::Sum16BitWords::add_slice");
    let v = checksum::Sum16BitWords::new().add_slice(b).ones_complement();
    s.dbg("sum", &v);
    s.enter(case, "checksum::u32_16bit_word::add_slice");
    let v = checksum::u32_16bit_word::ones_complement(checksum::u32_16bit_word::add_slice(0, b));
    s.dbg("sum32", &v);
    s.enter(case, "checksum::u64_16bit_word::add_slice");
    let v = checksum::u64_16bit_word::ones_complement(checksum::u64_16bit_word::add_slice(0, b));
    s.dbg("sum64", &v);
}
