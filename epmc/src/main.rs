//! epmc — "etherparse model checker": bounded-exhaustive exploration of the real etherparse
//! code against reference models. See /verif/DESIGN.md.
#![allow(clippy::all)]
#![allow(dead_code)]

mod fw;
mod mem;
mod pkt;
mod props;

use fw::Tier;

fn usage() -> ! {
    eprintln!("usage: epmc run <Cxx> [--tier quick|thorough]\n       epmc case <Cxx> <tier> <unit> <idx>\n       epmc replay <file>\n       epmc list");
    std::process::exit(2)
}

fn main() {
    let args: Vec<String> = std::env::args().skip(1).collect();
    if args.is_empty() {
        usage();
    }
    let checks = props::all();
    let find = |id: &str| -> &dyn fw::Check {
        match checks.iter().find(|c| c.id().eq_ignore_ascii_case(id)) {
            Some(c) => c.as_ref(),
            None => {
                eprintln!("unknown check {}", id);
                std::process::exit(2)
            }
        }
    };
    match args[0].as_str() {
        "list" => {
            for c in &checks {
                println!("{}", c.id());
            }
        }
        "run" => {
            if args.len() < 2 {
                usage();
            }
            let mut tier = std::env::var("VERIF_TIER").ok().and_then(|s| Tier::parse(&s)).unwrap_or(Tier::Quick);
            let mut i = 2;
            while i < args.len() {
                if args[i] == "--tier" && i + 1 < args.len() {
                    tier = Tier::parse(&args[i + 1]).unwrap_or_else(|| usage());
                    i += 1;
                }
                i += 1;
            }
            std::process::exit(fw::supervisor_main(find(&args[1]), tier));
        }
        "worker" => {
            // worker <id> <tier> <wid> <fd> <bits> [resume...]
            let tier = Tier::parse(&args[2]).unwrap();
            std::process::exit(fw::worker_main(find(&args[1]), tier, &args[3..]));
        }
        "miri-cases" => {
            if args.get(1).map(|s| s.eq_ignore_ascii_case("C11")).unwrap_or(false) {
                print!("{}", props::c11::miri_list());
                std::process::exit(0);
            }
            let stride: usize = args.get(2).and_then(|s| s.parse().ok()).unwrap_or(1);
            std::process::exit(props::c01::miri_cases(stride));
        }
        "miri" => {
            // executes one shard of a case list, meant to be run by `cargo +nightly miri run -- miri <id> <file> <shard> <n>`
            let shard = (args.get(3).and_then(|s| s.parse().ok()).unwrap_or(0), args.get(4).and_then(|s| s.parse().ok()).unwrap_or(1));
            let rc = match args.get(1).map(|s| s.as_str()) {
                Some("C01") | Some("c01") => props::c01::miri_main(args.get(2).map(|s| s.as_str()).unwrap_or(""), shard),
                Some("C11") | Some("c11") => props::c11::miri_main(args.get(2).map(|s| s.as_str()).unwrap_or(""), shard),
                _ => {
                    eprintln!("no Miri stage for this check");
                    2
                }
            };
            std::process::exit(rc);
        }
        "post" => {
            // run only the post-run stage of a check (development aid)
            let tier = Tier::parse(args.get(2).map(|s| s.as_str()).unwrap_or("thorough")).unwrap_or(Tier::Thorough);
            match find(&args[1]).post_run(tier) {
                None => println!("no post-run stage"),
                Some(p) => {
                    for (k, v) in &p.coverage {
                        println!("coverage {}: {}", k, v);
                    }
                    for (s, d, t) in &p.violations {
                        println!("VIOLATION sig={} :: {} :: {}", s, fw::truncate(d, 600), fw::truncate(t, 300));
                    }
                    for m in &p.machinery_errors {
                        println!("MACHINERY-ERROR {}", m);
                    }
                    for a in &p.assumptions {
                        println!("assumption {}", a);
                    }
                }
            }
        }
        "count" => {
            let tier = Tier::parse(&args[2]).unwrap_or_else(|| usage());
            let v = fw::count_cases(find(&args[1]), tier);
            let total: u64 = v.iter().sum();
            println!("units {} generated cases {}", v.len(), total);
            if args.len() > 3 {
                let mut lo = 0usize;
                for hi in args[3].split(',').filter_map(|x| x.parse::<usize>().ok()).chain(std::iter::once(v.len())) {
                    let hi = hi.min(v.len());
                    println!("  units [{},{}): {}", lo, hi, v[lo..hi].iter().sum::<u64>());
                    lo = hi;
                }
            }
        }
        "case" => {
            if args.len() < 5 {
                usage();
            }
            let tier = Tier::parse(&args[2]).unwrap_or_else(|| usage());
            let (rep, same) = fw::single_case(find(&args[1]), tier, args[3].parse().unwrap(), args[4].parse().unwrap());
            for l in &rep {
                println!("{}", l);
            }
            if !same {
                eprintln!("MACHINERY-ERROR: two replays of the same case gave different reports");
                std::process::exit(2);
            }
            std::process::exit(if rep.iter().any(|l| l.starts_with("violation")) { 1 } else { 0 });
        }
        "replay" => {
            if args.len() < 2 {
                usage();
            }
            let (prop, tier, unit, idx) = fw::read_replay(&args[1]).unwrap_or_else(|| {
                eprintln!("cannot read replay file {}", args[1]);
                std::process::exit(2)
            });
            let tier = Tier::parse(&tier).unwrap_or(Tier::Quick);
            let (rep, same) = fw::single_case(find(&prop), tier, unit, idx);
            for l in &rep {
                println!("{}", l);
            }
            if !same {
                eprintln!("MACHINERY-ERROR: two replays of the same case gave different reports");
                std::process::exit(2);
            }
            if rep.iter().any(|l| l.starts_with("violation")) {
                println!("VIOLATION property={} replay={}", prop, args[1]);
                std::process::exit(1);
            }
            std::process::exit(0);
        }
        _ => usage(),
    }
}
