add("C15","model_checking","exhaustive enumeration of complete value domains against a bit-level reference",
    "Every value of every bounded type goes through every checked constructor; every value of the bytes holding a bit field goes through every decoder; every in-range field value is encoded against all-min/all-max/alternating neighbours and compared with a reference bit placement transcribed from the RFC diagrams. The domains are finite and small, so complete enumeration is the strongest statement available.",
    "trusted: the bit positions transcribed into the reference tables; fields wider than 16 (quick) / 20 (thorough) bits are covered with boundary patterns only",
    "DESIGN.md 4/C15")
