#!/usr/bin/env python3
"""Writes /verif/seeded/<id>-<mk>/meta.json from notes.md and the detection matrix logs (/var/tmp/matrix-*.log or
/verif/seeded/matrix.txt). Re-runnable."""
import json, re, os, glob, sys
props = {json.loads(l)['id']: json.loads(l) for l in open('/verif/properties.jsonl')}
# detection results: name check exit=.. sigs=.. first=[..]
rows = {}
files = ['/verif/seeded/matrix.txt']   # maintained by tools/matrix_merge.py
for f in files:
    if not os.path.exists(f): continue
    for l in open(f):
        m = re.match(r'(\S+) (C\d\d) exit=(\d+) sigs=(\d+) first=\[(.*?)\]', l)
        if m:
            rows.setdefault(m.group(1), {})[m.group(2)] = (int(m.group(3)), int(m.group(4)), m.group(5))   # later files win
out_lines = []
for d in sorted(glob.glob('/verif/seeded/C??-*m?/')):
    name = os.path.basename(d.rstrip('/'))
    pid = name.split('-')[0]
    notes = open(d + 'notes.md').read() if os.path.exists(d + 'notes.md') else ''
    title = notes.strip().split('\n')[0].lstrip('# ').strip()
    # "what is needed to manifest" paragraph
    m = re.search(r'(?is)(what (?:exactly )?is needed[^\n]*\n|needed (?:for it )?to manifest[^\n]*\n|## *manifest[^\n]*\n|\*\*what is needed[^\n]*\n)(.*?)(\n## |\n\*\*[A-Z]|\Z)', notes)
    needs = (m.group(2).strip() if m else '')[:900]
    files_changed = re.findall(r'^\+\+\+ b/(\S+)', open(d + 'patch.diff').read(), re.M)
    det = rows.get(name, {})
    meta = {
        "property": pid,
        "property_title": props[pid]['title'],
        "change": title,
        "files_changed": files_changed,
        "needs_to_manifest": needs or "see notes.md",
        "written_by": "independent sub-agent given only the property text and a scratch worktree of /repo (nothing from /verif)" + (", plus the one-line titles of the earlier changes for the same property so that it would pick other sites" if re.search(r'-r[34]m', name) else "") + ("; this round asked for two cooperating sites, state carried between calls, or cross-layer interplay" if '-r4m' in name else ""),
        "confirmed": {
            "how": "tools/confirm_seed.sh in the scratch worktree: git apply --check; demo passes on the clean tree; demo fails (assertion/panic, no compile error) with the patch; `cargo test --workspace --offline` passes with the patch (1112 + 11 + 111 tests)",
            "result": "CONFIRMED"
        },
        "ran": "tools/mutant_matrix.sh %s seeded/%s/patch.diff <checks> (quick tier against a scratch copy of /repo with the patch applied)" % (name, name),
        "detected_by": sorted([c for c, r in det.items() if r[0] == 1 and r[1] > 0]),
        "not_detected_by": sorted([c for c, r in det.items() if r[0] == 0]),
        "first_signature": {c: r[2] for c, r in sorted(det.items()) if r[0] == 1 and r[1] > 0},
    }
    json.dump(meta, open(d + 'meta.json', 'w'), indent=1)
    out_lines.append("%s | %s | %s | %s" % (name, title[:90], ','.join(meta['detected_by']) or '-', 'target check: ' + ('CAUGHT' if pid in meta['detected_by'] else 'MISSED' if pid in det else 'not run')))
print('\n'.join(out_lines))
