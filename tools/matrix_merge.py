#!/usr/bin/env python3
"""usage: tools/matrix_merge.py <log files in chronological order...>
Merges result lines of tools/mutant_matrix.sh into /verif/seeded/matrix.txt: the latest result per (change, check) wins."""
import re, sys, collections
path = '/verif/seeded/matrix.txt'
rows = collections.OrderedDict()
def load(f):
    for l in open(f):
        m = re.match(r'(\S+) (C\d\d) exit=(\d+) sigs=(\d+) first=\[(.*?)\]', l)
        if m:
            rows.setdefault(m.group(1), {})[m.group(2)] = l.rstrip('\n')
load(path)
for f in sys.argv[1:]:
    load(f)
def keyf(n):
    m = re.match(r'C(\d\d)-(r(\d))?m(\d)', n)
    if m:
        return (0, int(m.group(1)), int(m.group(3) or 1), int(m.group(4)))
    return (1, 0, 0, 0, n)
out = ["# quick tier of every check against every seeded change (tools/mutant_matrix.sh, scratch copy of /repo with the patch applied)",
       "# <change> <check> exit=<0 held|1 violation> sigs=<number of violation signatures> first=[<first signature>]",
       "# (latest run per pair; D1..D8 = reverse patches of the repaired defects in /verif/mutants)"]
for n in sorted(rows, key=keyf):
    for c in sorted(rows[n]):
        out.append(rows[n][c])
open(path, 'w').write('\n'.join(out) + '\n')
print(len(rows), 'changes')
