#!/usr/bin/env python3
"""Regenerates the generated parts of DESIGN.md (between <!-- BEGIN x --> / <!-- END x --> markers):
seeded-table (tools/design_table.py) and benign-table (benign/matrix.txt)."""
import re, subprocess, collections, glob, os
d = open('/verif/DESIGN.md').read()
def splice(name, text):
    global d
    a, b = '<!-- BEGIN %s -->' % name, '<!-- END %s -->' % name
    i, j = d.index(a) + len(a), d.index(b)
    d = d[:i] + '\n' + text.rstrip('\n') + '\n' + d[j:]
splice('seeded-table', subprocess.run(['python3', '/verif/tools/design_table.py'], capture_output=True, text=True).stdout)
rows = collections.OrderedDict()
if os.path.exists('/verif/benign/matrix.txt'):
    for l in open('/verif/benign/matrix.txt'):
        m = re.match(r'(\S+) (C\d\d) exit=(\d+) sigs=(\d+) first=\[(.*?)\]', l)
        if m: rows.setdefault(m.group(1), {})[m.group(2)] = (int(m.group(3)), m.group(5))
out = ['| change | what it does | checks run | alarms |', '|---|---|---|---|']
for n in sorted(rows):
    t = open('/verif/benign/%s/notes.md' % n).readline().strip().lstrip('# ').strip()
    t = re.sub(r'^b\d\s*[-\u2014]+\s*', '', t)
    al = [c + ' `' + v[1][:80] + '`' for c, v in sorted(rows[n].items()) if v[0] != 0]
    out.append('| %s | %s | %d | %s |' % (n, t.replace('|', '/')[:150], len(rows[n]), ', '.join(al) or 'none'))
splice('benign-table', '\n'.join(out))
open('/verif/DESIGN.md', 'w').write(d)
print('spliced')
