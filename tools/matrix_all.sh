#!/bin/bash
# usage: tools/matrix_all.sh <out.log> <checks|ALL> <seed names...>
# Runs tools/mutant_matrix.sh for each named change in /verif/seeded (or mutants/revert-<name>.diff for D1..D8)
# sequentially (they share one scratch target dir) and appends the result lines to <out.log>.
set -u
V="$(cd "$(dirname "${BASH_SOURCE[0]}")/.." && pwd)"
out="$1"; checks="$2"; shift 2
[ "$checks" = "ALL" ] && checks="C01 C02 C03 C04 C05 C06 C07 C08 C09 C10 C11 C12 C13 C14 C15 C16 C17"
for n in "$@"; do
  p="/verif/seeded/$n/patch.diff"; [ -f "$p" ] || p="/verif/benign/$n/patch.diff"; [ -f "$p" ] || p="/verif/mutants/revert-$n.diff"
  [ -f "$p" ] || { echo "$n NO-PATCH" >> "$out"; continue; }
  "$V/tools/mutant_matrix.sh" "$n" "$p" $checks >> "$out" 2>&1
done
echo "DONE $(date)" >> "$out"
