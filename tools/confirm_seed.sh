#!/bin/bash
# usage: tools/confirm_seed.sh C11 m1
# Confirms an independently written property-breaking change in its scratch worktree /tmp/seed-<id>:
#  patch applies; full suite passes WITH the patch; demo FAILS with the patch and PASSES without it.
# On success copies patch.diff, demo.rs, notes.md to /verif/seeded/<id>-<mk>/ and prints CONFIRMED.
set -u
id="$1"; mk="$2"; W="${SEED_ROOT:-/tmp/seed}-$id"; S="$W/SEED/$mk"
[ -f "$S/patch.diff" ] && [ -f "$S/demo.rs" ] || { echo "$id $mk MISSING files"; exit 2; }
cd "$W" || exit 2
git checkout -q -- . ; rm -f etherparse/tests/demo_*.rs
git apply --check "$S/patch.diff" 2>/dev/null || { echo "$id $mk PATCH-DOES-NOT-APPLY"; exit 3; }
cp "$S/demo.rs" etherparse/tests/demo_$mk.rs
# without the patch: demo must pass
if ! cargo test --offline -p etherparse --test demo_$mk >"$S/confirm_demo_clean.log" 2>&1; then echo "$id $mk DEMO-FAILS-ON-CLEAN-TREE"; git checkout -q -- .; rm -f etherparse/tests/demo_$mk.rs; exit 4; fi
git apply "$S/patch.diff"
# with the patch: demo must fail (not with a compile error)
if cargo test --offline -p etherparse --test demo_$mk >"$S/confirm_demo_patched.log" 2>&1; then echo "$id $mk DEMO-PASSES-WITH-PATCH"; git checkout -q -- .; rm -f etherparse/tests/demo_$mk.rs; exit 5; fi
if grep -q "error\[E\|could not compile" "$S/confirm_demo_patched.log"; then echo "$id $mk DEMO-COMPILE-ERROR-WITH-PATCH"; git checkout -q -- .; rm -f etherparse/tests/demo_$mk.rs; exit 6; fi
rm -f etherparse/tests/demo_$mk.rs
# with the patch: the repository's own suite must pass
cargo test --workspace --offline >"$S/confirm_suite_patched.log" 2>&1; rc=$?
res="$(grep -E '^test result' "$S/confirm_suite_patched.log" | tr '\n' ' ')"
git checkout -q -- .
if [ $rc -ne 0 ] || echo "$res" | grep -q FAILED; then echo "$id $mk SUITE-FAILS-WITH-PATCH $res"; exit 7; fi
D="/verif/seeded/$id-${SEED_TAG:-}$mk"; mkdir -p "$D"
cp "$S/patch.diff" "$S/demo.rs" "$D/"; cp "$S/notes.md" "$D/notes.md" 2>/dev/null
fail="$(grep -m1 -E "panicked at|assertion" "$S/confirm_demo_patched.log" | cut -c1-200)"
echo "$id $mk CONFIRMED suite=[$res] demo_failure=[$fail]"
