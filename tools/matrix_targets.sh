#!/bin/bash
# usage: tools/matrix_targets.sh <out.log> <change names...>
# Regression run: every named change of /verif/seeded against the check of the property it was written for only.
set -u
V="$(cd "$(dirname "${BASH_SOURCE[0]}")/.." && pwd)"
out="$1"; shift
for n in "$@"; do
  p="/verif/seeded/$n/patch.diff"
  [ -f "$p" ] || { echo "$n NO-PATCH" >> "$out"; continue; }
  "$V/tools/mutant_matrix.sh" "$n" "$p" "${n:0:3}" >> "$out" 2>&1
done
echo "DONE $(date)" >> "$out"
