#!/usr/bin/env python3
"""Prints the markdown table of DESIGN.md 10.7 from seeded/*/meta.json and seeded/matrix.txt."""
import json, glob, os, re, collections
det = collections.defaultdict(dict)
for l in open('/verif/seeded/matrix.txt'):
    m = re.match(r'(\S+) (C\d\d) exit=(\d+) sigs=(\d+) first=\[(.*?)\]', l)
    if m: det[m.group(1)][m.group(2)] = (int(m.group(3)), m.group(5))
print("| change | what it does (file) | target check | first signature of the target check | also reported by |")
print("|---|---|---|---|---|")
for d in sorted(glob.glob('/verif/seeded/C??-*m?/')):
    name = os.path.basename(d.rstrip('/'))
    meta = json.load(open(d + 'meta.json'))
    pid = meta['property']
    title = re.sub(r'^(Seed )?m\d\s*[-—]+\s*', '', meta['change'])
    files = ', '.join(os.path.basename(f) for f in meta['files_changed'])
    r = det[name].get(pid)
    caught = 'caught' if r and r[0] == 1 else ('not run' if not r else 'not reported')
    sig = r[1] if r and r[0] == 1 else ''
    others = sorted(c for c, v in det[name].items() if v[0] == 1 and c != pid)
    print("| %s | %s (%s) | %s | `%s` | %s |" % (name, title.replace('|', '/'), files, caught, sig[:110], ', '.join(others) or '–'))
