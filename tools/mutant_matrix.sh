#!/bin/bash
# usage: tools/mutant_matrix.sh <name> <patch.diff> <check ids...>
# Applies <patch.diff> to a scratch copy of /repo (under /var/tmp, removed afterwards), runs the quick tier of the
# given checks against that copy (VERIF_REPO) and prints one line per check: <name> <check> exit=<rc> sigs=<n> first=<sig>.
# /repo and /verif/evidence are not touched.
set -u
name="$1"; patch="$2"; shift 2
V="$(cd "$(dirname "${BASH_SOURCE[0]}")/.." && pwd)"
W="/var/tmp/mut-$name"
rm -rf "$W"; mkdir -p "$W"
rsync -a --exclude target --exclude .git /repo/ "$W/repo/"
if ! (cd "$W/repo" && git init -q . 2>/dev/null; git -C "$W/repo" apply --whitespace=nowarn "$patch" 2>"$W/apply.err" || patch -d "$W/repo" -p1 < "$patch" >"$W/apply.err" 2>&1); then
  echo "$name APPLY-FAILED $(head -2 "$W/apply.err" | tr '\n' ' ')"; rm -rf "$W"; exit 3
fi
export VERIF_REPO="$W/repo" VERIF_ALT_DIR="$W/alt" VERIF_ALT_TARGET="${MUT_TARGET:-/var/tmp/mut-target}" VERIF_OUT_DIR="$W/out"
for c in "$@"; do
  out="$("$V/check" "$c" --tier "${MUT_TIER:-quick}" 2>&1)"; rc=$?
  n=$(printf '%s\n' "$out" | grep -c '^VIOLATION')
  first=$(printf '%s\n' "$out" | grep -m1 '^  sig:' | cut -c8-160)
  mach=$(printf '%s\n' "$out" | grep -m1 'MACHINERY-ERROR' | cut -c1-160)
  echo "$name $c exit=$rc sigs=$n first=[$first] $mach"
done
rm -rf "$W"
