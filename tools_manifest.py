#!/usr/bin/env python3
"""Regenerates MANIFEST.json from the table below (kept as code so that it stays valid)."""
import json, subprocess, sys
ids=[json.loads(l)['id'] for l in open('/verif/properties.jsonl')]
# id -> (category, technique, text, note, design_ref)
CHECKS = {}
def add(i, cat, technique, text, note, ref): CHECKS[i]=(cat,technique,text,note,ref)
exec(open('/verif/manifest_table.py').read())
hooks_commits=[l.strip() for l in open('/verif/hook_commits.txt')] if __import__('os').path.exists('/verif/hook_commits.txt') else []
m={"version":1,
 "setup_cmd":"./check build",
 "hooks":{"guard":"etherparse_verif","enable":"RUSTFLAGS=\"--cfg etherparse_verif\" (exported by ./check for every build of /repo/etherparse)","baseline_off_cmd":"cd /repo && cargo test --workspace --no-fail-fast --offline","source_commits":hooks_commits,"add_only":True},
 "engines":[{"name":"epmc","path":"/verif/epmc","serves_properties":sorted(CHECKS),"kind_free_text":"bounded-exhaustive explorer in Rust: enumerates packet shapes / header values / operation histories / fault positions completely within stated bounds, runs every case on the real etherparse code in isolated worker processes (guard pages, checked build) and compares with an independent reference model"}],
 "checks":[],
 "notes":"./check <id> --tier quick|thorough; exit 0 held, 1 violation, 2 machinery error. See DESIGN.md.",
 "not_applicable":[]}
for i in ids:
    if i in CHECKS:
        cat,tech,text,note,ref=CHECKS[i]
        if i in ("C08","C10","C15","C16","C17"):
            text+=" The complete bounds of this check take seconds, so the quick tier enumerates the same space as the thorough tier (numbers in parentheses above)."
        m["checks"].append({"property_id":i,"quick_cmd":f"./check {i} --tier quick","thorough_cmd":f"./check {i} --tier thorough","evidence_file":f"/verif/evidence/{i}.json","replay_cmd_template":"./check replay {path}","engine":"epmc","level_claimed":{"category":cat,"text":text,"design_ref":ref},"level_note":note,"technique":tech})
    else:
        m["not_applicable"].append({"property_id":i,"reason":"check not built yet (work in progress; model checking applies, see DESIGN.md section 4)"})
json.dump(m,open('/verif/MANIFEST.json','w'),indent=1)
print("claimed:",sorted(CHECKS))
